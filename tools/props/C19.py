"""C19: archive search lists each zip member exactly once and changes nothing else."""
import os
import zipfile

import common
import corr
import fstree
import gen

RULE = ("trees containing zip archives (0..N members, nested directories, stored/deflated, unix and DOS mode bits, "
        "dates across months, names with spaces/unicode), hard links to archives (a second name of the same inode), directories named like archives, archives with wrong or upper-case extension, corrupt "
        "archives (every truncation point of a small archive in the thorough tier, sampled in quick; flipped "
        "central-directory bytes) x filters, ordering, limits; (a) CLI output vs the Lean model (member tables are "
        "snapshot input read with Python zipfile), (b) oracle: rows for ordinary entries equal the run without "
        "`archives`; members of each readable archive appear exactly once directly after the archive's row with "
        "zipfile's name/size/dir flag; corrupt archives add nothing and never abort. distinct = (tree, argv); "
        "nontrivial = the tree has a readable archive with >= 1 member")


def arc_tree(r):
    ents = fstree.gen_tree(r, max_entries=r.choice([3, 8, 15]), kinds="fd")
    dirs = [""] + [e["path"] for e in ents if e["kind"] == "d"]
    nz = r.range(1, 3)
    for i in range(nz):
        d = r.choice(dirs)
        ext = r.choice([".zip", ".zip", ".jar", ".war", ".ear", ".ZIP", ".Jar", ".tar", ""])
        name = (d + "/" if d else "") + "arc%d%s" % (i, ext)
        members = fstree.gen_zip_members(r, r.choice([0, 1, 3, 7]))
        if members and r.chance(1, 3):
            cand = [m for m in members if not m["name"].endswith("/")]
            if cand:
                r.choice(cand)["encrypted"] = True      # a member that cannot be opened
        ent = {"path": name, "kind": "z", "members": members, "compress": r.chance(1, 2), "mtime": 1700000000 + i}
        if r.chance(1, 4):
            # a launcher script or an executable stub in front of the first record: unzip, zipfile and the zip crate read it
            ent["prefix"] = r.choice([b"#!/bin/sh\nexec java -jar \"$0\" \"$@\"\n", b"MZ" + b"\0" * 62 + b"stub", b"\n", b"PK-not-a-record"])
        ents.append(ent)
    if r.chance(1, 2):
        # a directory whose name ends in an archive extension is a directory: listed and entered like any other
        d = r.choice(dirs)
        dn = (d + "/" if d else "") + r.choice(["exploded.war", "libs.JAR", "old.zip"])
        ents.append({"path": dn, "kind": "d", "mode": 0o755, "mtime": 1700000000})
        ents.append({"path": dn + "/inside.txt", "kind": "f", "size": 4, "mode": 0o644, "mtime": 1700000001, "lines": 1})
        ents.append({"path": dn + "/WEB-INF", "kind": "d", "mode": 0o755, "mtime": 1700000000})
        ents.append({"path": dn + "/WEB-INF/dep.jar", "kind": "z", "members": fstree.gen_zip_members(r, 2), "mtime": 1700000002})
    if r.chance(1, 2):
        # a second name (hard link) of one of the archives: its members are listed under both names
        arcs = [e for e in ents if e["kind"] == "z"]
        tgt = r.choice(arcs)
        d = r.choice(dirs)
        ext = os.path.splitext(tgt["path"])[1]
        ents.append({"path": (d + "/" if d else "") + r.choice(["aaa-hl", "zzz-hl"]) + ext, "kind": "h", "target": tgt["path"]})
    if r.chance(1, 2):
        d = r.choice(dirs)
        ents.append({"path": (d + "/" if d else "") + "broken.zip", "kind": "raw",
                     "content": r.choice([b"", b"PK", b"PK\x03\x04" + b"\0" * 20, b"not a zip at all", b"PK\x05\x06" + b"\0" * 18]),
                     "mtime": 1700000009})
    return ents


def run(ctx):
    quick = ctx.tier == "quick"
    ntrees = 14 if quick else 120
    per_tree = 8 if quick else 20
    scratch = common.new_scratch()
    try:
        for t in range(ntrees):
            r = ctx.rng.fork()
            snap = corr.Snap(scratch, arc_tree(r), subdir="t%d" % t, tz=r.choice(list(fstree.TZ_OFFSETS)))
            has_members = any(n["facts"].get("zip") for n in snap.nodes)
            for _ in range(per_tree):
                cols = r.sample(["name", "path", "size", "is_dir", "mode", "modified", "ext", "is_file", "is_hidden", "is_empty"], r.range(1, 4))
                if "name" not in cols and "path" not in cols:
                    cols = ["path"] + cols
                where = r.choice(["", "", " where name like '%.txt'", " where size > 0", " where is_dir = false", " where name like '%.log' or ext = 'rs'"])
                order = r.choice(["", "", " order by size desc, name", " order by name"])
                limit = r.choice(["", "", " limit 1", " limit 3", " limit 50"])
                arcw = r.choice(["arc", "archives", "ARC"])
                trav = r.choice(["", " dfs"])
                # every third query has a depth window: an archive on the last level of the window is inside it, members and all
                maxd = r.choice([0, 0, 1, 2, 3])
                if maxd:
                    trav += " %s %d" % (r.choice(["depth", "maxdepth"]), maxd)
                base = "select %s from . @ARC@%s%s%s" % (", ".join(cols), trav, where, order)
                q = base.replace("@ARC@", arcw) + limit + " into list"
                ctx.case((t, q))
                if has_members:
                    ctx.distinct.add((t, q, "nt"))
                m, impl = corr.run_case(ctx, snap, [q], fmt="list", ncols=len(cols))
                case = {"argv": [q], "tree": [n["rel"] for n in snap.nodes][:40]}
                if impl["status"] != 0 or common.panicked(impl):
                    ctx.oracle_fail("archive query did not exit 0", case, detail={"status": impl["status"], "err": impl["err"][:300].decode("utf-8", "replace")})
                    continue
                if limit and not order:
                    # LIMIT n without ORDER BY: n rows (all of them when there are fewer), each a row of the unlimited run
                    n_lim = int(limit.split()[1])
                    full = common.run_cli([base.replace("@ARC@", arcw) + " into list"], cwd=snap.root, scratch=scratch, tz=snap.tz)
                    fv = full["out"].split(b"\0")[:-1]
                    w = len(cols)
                    frows = [tuple(fv[i:i + w]) for i in range(0, len(fv), w)]
                    lv = impl["out"].split(b"\0")[:-1]
                    lrows = [tuple(lv[i:i + w]) for i in range(0, len(lv), w)]
                    if len(lrows) != min(n_lim, len(frows)) or any(x not in frows for x in lrows):
                        ctx.oracle_fail("LIMIT n with `archives` must return n rows of the unlimited result (all when fewer exist)", case,
                                        detail={"limit": n_lim, "rows": len(lrows), "unlimited_rows": len(frows)})
                if limit:
                    continue
                # oracle on the unlimited run (an ordered run is compared as a multiset)
                vals = impl["out"].split(b"\0")[:-1]
                w = len(cols)
                rows = [vals[i:i + w] for i in range(0, len(vals), w)]
                plain = common.run_cli([base.replace(" @ARC@", "") + " into list"], cwd=snap.root, scratch=scratch, tz=snap.tz)
                pv = plain["out"].split(b"\0")[:-1]
                prows = [pv[i:i + w] for i in range(0, len(pv), w)]
                key = cols.index("path") if "path" in cols else cols.index("name")
                ordinary = [rw for rw in rows if not rw[key].startswith(b"[")]
                if (sorted(ordinary) != sorted(prows)) if order else (ordinary != prows):
                    ctx.oracle_fail("rows of ordinary entries differ from the run without `archives`", case,
                                    detail={"with": len(ordinary), "without": len(prows)})
                # members exactly once, from zipfile
                if not where:
                    want = []
                    for n in snap.nodes:
                        z = n["facts"].get("zip")
                        if z and (maxd == 0 or n["depth"] <= maxd):
                            for mem in z:
                                shown = "./" + n["rel"] if "path" in cols else n["name"]
                                want.append(("[%s] %s" % (shown, mem["name"])).encode())
                    got = [rw[key] for rw in rows if rw[key].startswith(b"[")]
                    # a member is a directory exactly when its name ends in a slash (zipfile's own rule)
                    for colname in ("is_dir", "is_file"):
                        if colname in cols:
                            ci = cols.index(colname)
                            for rw in rows:
                                if rw[key].startswith(b"["):
                                    isd = rw[key].endswith(b"/")
                                    expect = (b"true" if isd else b"false") if colname == "is_dir" else (b"false" if isd else b"true")
                                    if rw[ci] != expect:
                                        ctx.oracle_fail("%s of an archive member does not follow its name (a trailing slash marks a directory)" % colname, case,
                                                        detail={"member": rw[key].decode("utf-8", "replace"), "got": rw[ci].decode()})
                                        break
                    # the extension of a member is that of its last path component (the text after its last dot, none for a
                    # dot-file or a name without a dot), whatever the directories before it are called
                    if "ext" in cols:
                        ci = cols.index("ext")
                        for rw in rows:
                            if rw[key].startswith(b"[") and b"] " in rw[key]:
                                mname = rw[key].split(b"] ", 1)[1].decode("utf-8", "replace")
                                comps = [c for c in mname.split("/") if c not in ("", ".")]
                                fn = comps[-1] if comps else ""
                                i = fn.rfind(".")
                                expect = "" if (fn == ".." or i <= 0) else fn[i + 1:]
                                cell = rw[ci].decode("utf-8", "replace")
                                cell = cell.split("] ", 1)[1] if cell.startswith("[") and "] " in cell else cell   # shown as `[archive] ext`
                                if cell != expect:
                                    ctx.oracle_fail("ext of an archive member is not the extension of its last path component", case,
                                                    detail={"member": mname, "got": rw[ci].decode("utf-8", "replace"), "want": expect})
                                    break
                    if sorted(got) != sorted(want):
                        ctx.oracle_fail("archive members are not reported exactly once each", case,
                                        detail={"got": len(got), "want": len(want)})
                ctx.sample({"argv": [q], "rows": len(rows)}, every=23)
            common.rm_tree(snap.root)
        # corrupt archives: truncation points and byte flips of a small archive
        snap_dir = os.path.join(scratch, "corrupt")
        os.makedirs(snap_dir)
        good = os.path.join(scratch, "good.zip")
        fstree.write_zip(good, [{"name": "a.txt", "size": 3, "mode": 0o100644}, {"name": "d/", "size": 0, "mode": 0o40755},
                                 {"name": "d/b.log", "size": 5, "mode": 0o100600}])
        data = open(good, "rb").read()
        points = list(range(len(data))) if not quick else list(range(0, len(data), 7))
        for k in points:
            for variant in ("trunc", "flip"):
                if variant == "flip" and k < len(data) - 120:
                    continue
                blob = data[:k] if variant == "trunc" else data[:k] + bytes([data[k] ^ 0xFF]) + data[k + 1:]
                p = os.path.join(snap_dir, "c.zip")
                with open(p, "wb") as f:
                    f.write(blob)
                with open(os.path.join(snap_dir, "z.txt"), "w") as f:
                    f.write("x")
                q = "select name, size from . arc into list"
                ctx.case(("corrupt", variant, k))
                r0 = common.run_cli([q], cwd=snap_dir, scratch=scratch, timeout=10)
                case = {"argv": [q], "archive": "%s at byte %d of a %d-byte archive" % (variant, k, len(data))}
                if r0["timed_out"] or common.panicked(r0) or r0["status"] not in (0, 1):
                    ctx.oracle_fail("corrupt archive aborts the search", case, detail={"status": r0["status"], "err": r0["err"][:200].decode("utf-8", "replace")})
                    continue
                vals = r0["out"].split(b"\0")[:-1]
                names = vals[0::2]
                if b"z.txt" not in names or b"c.zip" not in names:
                    ctx.oracle_fail("a corrupt archive loses other rows", case, detail={"names": [n.decode("utf-8", "replace") for n in names]})
                try:
                    with zipfile.ZipFile(p) as z:
                        readable = [i.filename for i in z.infolist()]
                except Exception:
                    readable = None
                members = [n for n in names if n.startswith(b"[")]
                if readable is None and members:
                    ctx.count("corrupt_but_rust_reads")     # the two readers may differ on damaged files: not judged
    finally:
        common.rm_tree(scratch)
