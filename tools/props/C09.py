"""C09: every output format is well-formed and carries exactly the result table."""
import csv
import html.parser
import io
import json
import os

import common
import corr
import fstree

RULE = ("long rows first (records of 1..20 KiB built from deep multi-byte paths, every alignment); " +
        "result tables of 0, 1 and many rows x 1..6 columns whose values come from adversarial file names (every "
        "printable ASCII punctuation, control characters legal in names, multi-byte UTF-8) x the six formats x the four "
        "result paths (streamed, ordered, aggregate row, grouped rows); (a) CLI bytes vs the Lean model, (b) oracle: "
        "Python json / csv / html.parser decode of the output equals the table decoded from the `into list` run of the "
        "same query. distinct = (tree, argv); nontrivial = some value contains a character special in the format")

PUNCT = list("!\"#$%&'()*+,-.:;<=>?@[\\]^_`{|}~ ") + ["\t", "\n", "\r", "\x01", "\x1f", "\x7f", "é", "日本", "😀", "ж"]
COLS = ["name", "path", "size", "ext", "mode", "is_dir", "modified", "dir", "uid", "hardlinks"]


def adv_tree(r, n):
    ents = []
    used = set()
    for i in range(n):
        base = r.choice(["a", "b", "x", "file", "r"])
        k = r.range(0, 3)
        for _ in range(k):
            pos = r.below(len(base) + 1)
            base = base[:pos] + r.choice(PUNCT) + base[pos:]
        name = base + r.choice(["", ".txt", ".c"])
        if name in used or name in (".", "..") or "/" in name:
            name = "n%d" % i
        used.add(name)
        if r.chance(1, 5):
            ents.append({"path": name, "kind": "d", "mode": 0o755, "mtime": 1700000000 + i})
        else:
            ents.append({"path": name, "kind": "f", "size": r.choice([0, 1, 5, 1024]), "mode": 0o644, "mtime": 1700000000 + i})
    return ents


class TableParser(html.parser.HTMLParser):
    def __init__(self):
        super().__init__(convert_charrefs=True)
        self.rows = []
        self.cell = None
        self.depth = []
        self.ok = True

    def handle_starttag(self, tag, attrs):
        self.depth.append(tag)
        if tag == "tr":
            self.rows.append([])
        elif tag == "td":
            self.cell = ""
        elif tag not in ("html", "body", "table"):
            self.ok = False

    def handle_endtag(self, tag):
        if not self.depth or self.depth[-1] != tag:
            self.ok = False
        else:
            self.depth.pop()
        if tag == "td":
            self.rows[-1].append(self.cell)
            self.cell = None

    def handle_data(self, data):
        if self.cell is not None:
            self.cell += data
        elif data.strip():
            self.ok = False


def decode(fmt, out, ncols, keys):
    """-> list of rows (lists of str) or an error string"""
    try:
        text = out.decode("utf-8")
    except UnicodeDecodeError:
        return "not UTF-8"
    if fmt == "list":
        vals = text.split("\0")[:-1]
        return [vals[i:i + ncols] for i in range(0, len(vals), ncols)]
    if fmt == "json":
        try:
            arr = json.loads(text)
        except ValueError as e:
            return "invalid JSON: %s" % e
        if not isinstance(arr, list) or not all(isinstance(o, dict) for o in arr):
            return "not an array of objects"
        rows = []
        for o in arr:
            ks = sorted(o.keys())
            rows.append([o[k] for k in ks])
        return rows
    if fmt == "csv":
        try:
            return [list(rw) for rw in csv.reader(io.StringIO(text, newline=""), strict=True)]
        except csv.Error as e:
            return "invalid CSV: %s" % e
    if fmt == "html":
        p = TableParser()
        p.feed(text)
        p.close()
        if not p.ok or p.depth:
            return "malformed HTML"
        return p.rows
    if fmt == "tabs":
        lines = text.split("\n")[:-1]
        return [ln.split("\t") for ln in lines]
    if fmt == "lines":
        vals = text.split("\n")[:-1]
        return [vals[i:i + ncols] for i in range(0, len(vals), ncols)]
    return "?"


def run(ctx):
    quick = ctx.tier == "quick"
    ntrees = 14 if quick else 150
    per_tree = 14 if quick else 40
    scratch = common.new_scratch()
    known = {k["id"]: k for k in common.load_known_findings()}
    try:
        # witness of the known finding D19 first
        snap = corr.Snap(scratch, [{"path": "a", "kind": "f", "size": 1, "mode": 0o644, "mtime": 1700000000}], subdir="w")
        r0 = common.run_cli(["select name, name from . into json"], cwd=snap.root, scratch=scratch)
        ctx.case(("w", "D19"))
        try:
            arr = json.loads(r0["out"].decode())
            if arr and len(arr[0]) < 2:
                ctx.oracle_fail("two columns with the same text share one JSON key", {"argv": ["select name, name from . into json"]}, finding="D19")
        except ValueError:
            ctx.oracle_fail("invalid JSON", {"argv": ["select name, name from . into json"]})
        common.rm_tree(snap.root)
        # exhaustive alphabet stage: every printable ASCII punctuation / control character alone inside a
        # value (and a few classic pairs), all six formats x four result paths
        names = []
        for code in list(range(1, 48)) + list(range(58, 65)) + list(range(91, 97)) + list(range(123, 128)):
            c = chr(code)
            if c in "/\0":
                continue
            names.append("x" + c + "y")
            names.append(c + "z" if c != "." else "z" + c)
        names += ["a&lt;b", "&amp;", "a&b", "<b>&\"'", '""', ",,", "a,\"b\"", "tab\tnl\nq", "é&<ж", "日本&", "'single'", "&#39;", "]]>", "-->"]
        ents = [{"path": nm, "kind": "f", "size": i % 3, "mode": 0o644, "mtime": 1700000000 + i} for i, nm in enumerate(dict.fromkeys(names))]
        alpha = corr.Snap(scratch, ents, subdir="alpha")
        stages = [(alpha, [("streamed", ["name", "size"], "select name, size from ."),
                           ("ordered", ["name", "size"], "select name, size from . order by name"),
                           ("grouped", ["name", "count(*)"], "select name, count(*) from . group by name"),
                           ("aggregate", ["max(size)", "count(name)"], "select max(size), count(name) from .")])]
        for snap0, qs in stages:
            for path, sel, base in qs:
                for fmt in ["json", "csv", "html", "tabs", "lines", "list"]:
                    q = base + " into " + fmt
                    ctx.case(("alpha", q))
                    ctx.distinct.add(("alpha", q, "nt"))
                    m, impl = corr.run_case(ctx, snap0, [q], fmt=fmt, ncols=len(sel))
                    ref = common.run_cli([base + " into list"], cwd=snap0.root, scratch=scratch)
                    case = {"argv": [q], "list_argv": [base + " into list"], "tree": "alphabet tree (one file per special character)"}
                    got = decode(fmt, impl["out"], len(sel), None)
                    want = decode("list", ref["out"], len(sel), None)
                    if isinstance(got, str):
                        ctx.oracle_fail("output is not well-formed %s: %s" % (fmt, got), case, detail={"out": impl["out"][:200].decode("utf-8", "replace")})
                        continue
                    if fmt in ("tabs", "lines"):
                        continue
                    canon = (lambda rows: sorted(tuple(sorted(rw)) for rw in rows)) if (fmt == "json" or path == "grouped") else (lambda rows: [tuple(rw) for rw in rows])
                    if fmt == "json" and path != "grouped":
                        canon = lambda rows: [tuple(sorted(rw)) for rw in rows]
                    if canon(got) != canon(want):
                        bad = [g for g, w in zip(canon(got), canon(want)) if g != w][:3]
                        ctx.oracle_fail("%s output does not decode to the rows of the list output" % fmt, case, detail={"first_differences": bad})
        common.rm_tree(alpha.root)
        # long rows: deep directories with multi-byte names and path-like columns repeated until a record is
        # 1..20 KiB long, at every alignment of the characters (writers flush their buffers wherever they are full)
        r = ctx.rng.fork()
        ents = []
        d = ""
        for i in range(5):
            d = (d + "/" if d else "") + r.choice(["日本", "жф", "é", "€x"]) * r.range(20, 40)
            ents.append({"path": d, "kind": "d", "mode": 0o755, "mtime": 1700000000})
        # (a line feed inside a value, followed by more than a kilobyte of the same row: stdout is line-buffered)
        for nm in ("x", "xy", "xyz", "日本", "q\"r", "n\nl", "tab\tcr\rz"):
            ents.append({"path": d + "/" + nm, "kind": "f", "size": 1, "mode": 0o644, "mtime": 1700000000})
        longs = corr.Snap(scratch, ents, subdir="long")
        for k in ([1, 2, 3, 7, 8, 9, 16] if quick else list(range(1, 24))):
            for lead in (["name"], ["size", "name"], []):
                # (`dir` repeats the long directory without the entry's own name: a line feed in the name then stands early
                # in the row, with more than a kilobyte and no further line break after it)
                sel = lead + [("dir" if (k + len(lead)) % 2 else "path")] * k
                for path, base in (("streamed", "select %s from . where is_file = true" % ", ".join(sel)),
                                   ("ordered", "select %s from . where is_file = true order by name desc" % ", ".join(sel))):
                    for fmt in (["csv", "json", "html"] if k in (1, 2, 8, 9) or not quick else ["csv", "html"]):
                        q = base + " into " + fmt
                        ctx.case(("long", q))
                        ctx.distinct.add(("long", k, fmt, path, len(lead), "nt"))
                        impl = common.run_cli([q], cwd=longs.root, scratch=scratch)
                        ref = common.run_cli([base + " into list"], cwd=longs.root, scratch=scratch)
                        case = {"argv": [q], "list_argv": [base + " into list"], "tree": "five nested directories with multi-byte names, record length about %d bytes" % (len(d.encode()) * k)}
                        got = decode(fmt, impl["out"], len(sel), None)
                        want = decode("list", ref["out"], len(sel), None)
                        if isinstance(got, str):
                            ctx.oracle_fail("output is not well-formed %s: %s" % (fmt, got), case, detail={"out": impl["out"][:200].decode("utf-8", "replace")})
                            continue
                        canon = (lambda rows: [tuple(sorted(set(rw))) for rw in rows]) if fmt == "json" else (lambda rows: [tuple(rw) for rw in rows])
                        if canon(got) != canon(want):
                            ctx.oracle_fail("%s output does not decode to the rows of the list output (long rows)" % fmt, case,
                                            detail={"rows_got": len(got), "rows_want": len(want)})
        common.rm_tree(longs.root)
        for t in range(ntrees):
            r = ctx.rng.fork()
            snap = corr.Snap(scratch, adv_tree(r, r.choice([0, 1, 3, 9])), subdir="t%d" % t, tz=r.choice(list(fstree.TZ_OFFSETS)))
            for _ in range(per_tree):
                path = r.choice(["streamed", "ordered", "aggregate", "grouped", "grouped"])
                ncols = r.range(1, 6)
                cols = r.sample(COLS, min(ncols, len(COLS)))
                if path == "aggregate":
                    sel = r.sample(["count(*)", "max(size)", "min(size)", "sum(size)", "count(name)"], min(ncols, 4))
                    base = "select %s from ." % ", ".join(sel)
                elif path == "grouped":
                    g = r.choice(["name", "ext", "mode", "is_dir"])
                    sel = [g] + r.sample(["count(*)", "max(size)", "sum(size)"], r.range(1, 2))
                    base = "select %s from . group by %s" % (", ".join(sel), g)
                elif path == "ordered":
                    sel = cols
                    base = "select %s from . order by %s" % (", ".join(sel), r.choice(["name", "size", "path desc", "1"]))
                else:
                    sel = cols
                    base = "select %s from ." % ", ".join(sel)
                if r.chance(1, 4) and path in ("streamed", "ordered"):
                    base += " limit %d" % r.range(1, 4)
                elif path == "grouped" and r.chance(2, 3):
                    # LIMIT over group rows (ordered by the key, so that both runs show the same groups): the cut table is
                    # still one well-formed document
                    base += " order by 1%s limit %d" % (r.choice(["", " desc"]), r.range(1, 4))
                    ctx.count("grouped_limited")
                fmt = r.choice(["json", "csv", "html", "tabs", "lines", "list"])
                if " limit " in base and path == "grouped":
                    fmt = r.choice(["json", "json", "json", "csv", "html", "tabs", "lines", "list"])   # the format with a row separator most often
                q = base + " into " + fmt
                ctx.case((t, q))
                ctx.hist("format", fmt)
                ctx.hist("path", path)
                m, impl = corr.run_case(ctx, snap, [q], fmt=fmt, ncols=len(sel))
                ref = common.run_cli([base + " into list"], cwd=snap.root, scratch=scratch, tz=snap.tz)
                case = {"argv": [q], "list_argv": [base + " into list"], "names": [n["name"] for n in snap.nodes][:20]}
                if impl["status"] != 0 or ref["status"] != 0:
                    ctx.oracle_fail("query failed", case, detail={"status": impl["status"], "err": impl["err"][:200].decode("utf-8", "replace")})
                    continue
                want = decode("list", ref["out"], len(sel), None)
                got = decode(fmt, impl["out"], len(sel), None)
                if isinstance(got, str):
                    ctx.oracle_fail("output is not well-formed %s: %s" % (fmt, got), case,
                                    detail={"out": impl["out"][:300].decode("utf-8", "replace")})
                    continue
                special = {"json": '"\\\n\t', "csv": '",\n\r', "html": "<>&\"'", "tabs": "\t\n", "lines": "\n", "list": "\0"}[fmt]
                if any(any(ch in v for ch in special) for row in want for v in row):
                    ctx.distinct.add((t, q, "nt"))
                if fmt in ("tabs", "lines") and any(any(ch in v for ch in special) for row in want for v in row):
                    continue    # the property only promises these when values contain no separator
                if fmt == "json":
                    # object keys are the column texts in sorted order: compare rows as multisets of values
                    got_c = sorted(tuple(sorted(rw)) for rw in got)
                    want_c = sorted(tuple(sorted(rw)) for rw in want)
                    same = got_c == want_c if path == "grouped" else [tuple(sorted(rw)) for rw in got] == [tuple(sorted(rw)) for rw in want]
                else:
                    same = (sorted(map(tuple, got)) == sorted(map(tuple, want))) if path == "grouped" else got == want
                if not same:
                    ctx.oracle_fail("%s output does not decode to the rows of the list output" % fmt, case,
                                    detail={"got": got[:3], "want": want[:3]})
                ctx.sample({"argv": [q], "rows": len(want)}, every=29)
            common.rm_tree(snap.root)
    finally:
        common.rm_tree(scratch)
