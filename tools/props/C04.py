"""C04: column values equal what the operating system and the file content say."""
import grp
import hashlib
import os
import pwd
import socket
import stat
import struct

import common
import corr
import fstree

RULE = ("(H) in-process, exhaustive: format_mode and the 18 mode predicates for all 65 536 values of the low 16 mode bits "
        "(4096 permission values x 16 type nibbles), model vs mode.rs vs Python stat.filemode; parse_capabilities for "
        "each of the 41 capabilities x {p,i,ip} x effective on/off, all pairs in the thorough tier, random multi-sets, "
        "every length 0..24 and random bytes, model vs capabilities.rs vs an independent Python decoder. "
        "(D) on disk (as root): regular/dir/symlink/FIFO/socket/char/block x permission values (all 4096 for regular "
        "files; sampled for the others in quick, all in thorough) and the same 7 types x permissions as zip-entry "
        "modes; owners incl. ids without a name; user.* xattrs and security.capability values; contents at buffer "
        "boundaries (0..200 000 bytes; newline patterns, binary, '#!' prefixes, needle across 8 KiB/32 KiB/64 KiB "
        "boundaries); names (dot-files, several dots, upper-case extensions, none) under configuration files that "
        "override each extension list. Every row is compared with the Lean model (correspondence) and with an "
        "independent Python evaluation from os.lstat / hashlib / pwd / grp (oracle). distinct = mode values + "
        "capability vectors + (tree, query); nontrivial = all (every value reaches the column evaluator)")

PRED_COLS = ["user_read", "user_write", "user_exec", "user_all", "group_read", "group_write", "group_exec", "group_all",
             "other_read", "other_write", "other_exec", "other_all", "suid", "sgid", "is_pipe", "is_char", "is_block",
             "is_socket"]

CAP_NAMES = ["chown", "dac_override", "dac_read_search", "fowner", "fsetid", "kill", "setgid", "setuid", "setpcap",
             "linux_immutable", "net_bind_service", "net_broadcast", "net_admin", "net_raw", "ipc_lock", "ipc_owner",
             "sys_module", "sys_rawio", "sys_chroot", "sys_ptrace", "sys_pacct", "sys_admin", "sys_boot", "sys_nice",
             "sys_resource", "sys_time", "sys_tty_config", "mknod", "lease", "audit_write", "audit_control", "setfcap",
             "mac_override", "mac_admin", "syslog", "wake_alarm", "block_suspend", "audit_read", "perfmon", "bpf",
             "checkpoint_restore"]          # linux/capability.h, CAP_LAST_CAP = 40


def py_preds(m):
    b = lambda k: bool(m & k)  # noqa: E731
    ur, uw, ux = b(0o400), b(0o200), b(0o100)
    gr, gw, gx = b(0o040), b(0o020), b(0o010)
    orr, ow, ox = b(0o004), b(0o002), b(0o001)
    t = m & 0o170000
    return [ur, uw, ux, ur and uw and ux, gr, gw, gx, gr and gw and gx, orr, ow, ox, orr and ow and ox,
            b(0o4000), b(0o2000), t == 0o010000, t == 0o020000, t == 0o060000, t == 0o140000]


def py_mode_string(m):
    s = stat.filemode(m)
    return ("-" + s[1:]) if s[0] == "?" else s      # fselect prints '-' for a type it does not know


def py_caps(raw):
    """independent decoder of vfs_cap_data as fselect documents its output (`cap_x=[e]{ip|p|i}` joined by spaces)"""
    if len(raw) < 12:
        return ""
    eff = "e" if raw[0] == 1 else ""
    words = [struct.unpack_from("<II", raw, 4)]
    if len(raw) >= 20:
        words.append(struct.unpack_from("<II", raw, 12))
    out = []
    for w, (perm, inh) in enumerate(words):
        for bit in range(32):
            idx = w * 32 + bit
            if idx >= len(CAP_NAMES):
                break
            p, i = bool(perm >> bit & 1), bool(inh >> bit & 1)
            if p or i:
                out.append("cap_%s=%s%s" % (CAP_NAMES[idx], eff, "ip" if (p and i) else ("p" if p else "i")))
    return " ".join(out)


def cap_blob(perm, inh, eff, version=2):
    magic = (0x02000000 if version == 2 else 0x01000000) | (1 if eff else 0)
    if version == 2:
        return struct.pack("<IIIII", magic, perm & 0xFFFFFFFF, inh & 0xFFFFFFFF, perm >> 32, inh >> 32)
    return struct.pack("<III", magic, perm & 0xFFFFFFFF, inh & 0xFFFFFFFF)


def part_h(ctx, quick):
    if not (ctx.harness_ok and ctx.model_ok):
        ctx.notes.append("in-process sweep skipped (harness or model unavailable)")
        return
    for m in range(65536):
        a = ctx.model.ask("fn\tformat_mode", str(m))
        b = ctx.harness.ask("format_mode", str(m))
        ctx.case(("mode", m))
        if a != b:
            ctx.disagree("formatMode/mode_* (model) = mode.rs (implementation)", {"mode": oct(m)}, a, b)
        want = py_mode_string(m) + " " + "".join("1" if x else "0" for x in py_preds(m))
        if b != want:
            ctx.oracle_fail("mode string / permission booleans differ from ls -l notation", {"mode": oct(m), "level": "in-process mode.rs"},
                            detail={"got": b, "want": want})
    ctx.count("modes_swept", 65536)
    # larger values: only the low 16 bits matter
    for _ in range(300):
        m = ctx.rng.below(1 << 32)
        a = ctx.model.ask("fn\tformat_mode", str(m))
        b = ctx.harness.ask("format_mode", str(m))
        ctx.case(("mode", m))
        if a != b:
            ctx.disagree("formatMode/mode_* (model) = mode.rs (implementation)", {"mode": oct(m)}, a, b)
    # capabilities
    blobs = []
    for c in range(41):
        for (p, i) in ((1, 0), (0, 1), (1, 1)):
            for eff in (0, 1):
                blobs.append(cap_blob(p << c, i << c, eff))
    pairs = [(a, b) for a in range(41) for b in range(a + 1, 41)]
    if quick:
        pairs = [ctx.rng.choice(pairs) for _ in range(150)]
    for a, b in pairs:
        blobs.append(cap_blob((1 << a) | (1 << b), (1 << b) if (a + b) % 2 else 0, (a + b) % 3 == 0))
    for _ in range(200 if quick else 3000):
        r = ctx.rng
        blobs.append(cap_blob(r.below(1 << 41) & r.below(1 << 41), r.below(1 << 41) & r.below(1 << 41), r.chance(1, 2),
                              version=r.choice([2, 2, 2, 1])))
    for n in range(0, 25):
        blobs.append(bytes((i * 37 + n) & 0xFF for i in range(n)))
        blobs.append(b"\x01" + b"\xff" * max(n - 1, 0) if n else b"")
    for _ in range(100 if quick else 2000):
        n = ctx.rng.below(30)
        blobs.append(bytes(ctx.rng.below(256) for _ in range(n)))
    for raw in blobs:
        hexs = raw.hex()
        ctx.case(("caps", hexs))
        a = ctx.model.ask("fn\tcaps", hexs)
        b = ctx.harness.ask_raw("caps\t" + hexs)
        if a != b:
            ctx.disagree("parseCaps (model) = parse_capabilities (implementation)", {"xattr_hex": hexs}, a, b)
        want = py_caps(raw)
        got = common.unhx(b).decode("utf-8", "replace") if not b.startswith(("panic", "died", "hang")) else b
        if got != want:
            ctx.oracle_fail("capability text differs from the decoded vfs_cap_data", {"xattr_hex": hexs, "level": "in-process parse_capabilities"},
                            detail={"got": got, "want": want})
    ctx.count("cap_vectors", len(blobs))


def rows_of(out, w):
    vals = out.split(b"\0")
    if vals and vals[-1] == b"":
        vals = vals[:-1]
    if len(vals) % w:
        return None
    return [vals[i:i + w] for i in range(0, len(vals), w)]


def bstr(x):
    return b"true" if x else b"false"


def part_modes_disk(ctx, scratch, quick):
    root = os.path.join(scratch, "modes")
    os.makedirs(root)
    perms = list(range(4096))
    others = perms if not quick else sorted(set([0, 0o777, 0o7777, 0o4000, 0o2000, 0o1000, 0o4111, 0o2010, 0o1001, 0o644, 0o755] +
                                                [ctx.rng.below(4096) for _ in range(120)]))
    for p in perms:
        f = os.path.join(root, "f%04o" % p)
        open(f, "wb").close()
        os.chmod(f, p)
    made = {"f": len(perms)}
    for p in others:
        d = os.path.join(root, "d%04o" % p)
        os.mkdir(d)
        os.chmod(d, p)
        os.mkfifo(os.path.join(root, "p%04o" % p))
        os.chmod(os.path.join(root, "p%04o" % p), p)
        try:
            os.mknod(os.path.join(root, "c%04o" % p), stat.S_IFCHR | 0o600, os.makedev(1, 3))
            os.chmod(os.path.join(root, "c%04o" % p), p)
            os.mknod(os.path.join(root, "b%04o" % p), stat.S_IFBLK | 0o600, os.makedev(7, 0))
            os.chmod(os.path.join(root, "b%04o" % p), p)
            made["cb"] = made.get("cb", 0) + 2
        except OSError:
            ctx.count("mknod_refused")
        s = socket.socket(socket.AF_UNIX)
        cwd = os.getcwd()
        try:
            os.chdir(root)
            s.bind("s%04o" % p)
        finally:
            os.chdir(cwd)
            s.close()
        os.chmod(os.path.join(root, "s%04o" % p), p)
    os.symlink("f0644", os.path.join(root, "l-file"))
    os.symlink("nowhere", os.path.join(root, "l-dangling"))
    os.symlink("d0755", os.path.join(root, "l-dir"))
    cols = ["name", "mode"] + PRED_COLS + ["is_file", "is_dir", "is_symlink"]
    q = "select %s from . depth 1 into list" % ", ".join(cols)
    snap = corr.Snap(scratch, None, root=root, content_facts=False)
    ctx.case(("modes-disk", q))
    m, impl = corr.run_case(ctx, snap, [q], fmt="list", ncols=len(cols), timeout=120)
    rows = rows_of(impl["out"], len(cols)) if impl["status"] == 0 else None
    if rows is None:
        ctx.oracle_fail("mode query failed", {"argv": [q]}, detail={"status": impl["status"], "err": impl["err"][:300].decode("utf-8", "replace")})
        return
    seen = 0
    for row in rows:
        name = row[0].decode()
        st = os.lstat(os.path.join(root, name))
        want = [row[0], py_mode_string(st.st_mode).encode()] + [bstr(x) for x in py_preds(st.st_mode)] + \
               [bstr(stat.S_ISREG(st.st_mode)), bstr(stat.S_ISDIR(st.st_mode)), bstr(stat.S_ISLNK(st.st_mode))]
        seen += 1
        types = [row[cols.index(c)] for c in ("is_file", "is_dir", "is_symlink", "is_pipe", "is_char", "is_block", "is_socket")]
        if row != want or types.count(b"true") != 1:
            ctx.oracle_fail("mode/permission/type columns differ from lstat", {"argv": [q], "entry": name, "st_mode": oct(st.st_mode)},
                            detail={"got": [x.decode() for x in row], "want": [x.decode() for x in want]})
            break
    if seen != len(os.listdir(root)):
        ctx.oracle_fail("not every entry was reported", {"argv": [q]}, detail={"rows": seen, "entries": len(os.listdir(root))})
    ctx.count("disk_mode_entries", seen)
    ctx.sample({"argv": [q], "entries": seen})
    for dp, dn, fn in os.walk(root):
        for d in dn:
            os.chmod(os.path.join(dp, d), 0o755)
    common.rm_tree(root)


def part_zip_modes(ctx, scratch, quick):
    root = os.path.join(scratch, "zipmodes")
    os.makedirs(root)
    types = [0o100000, 0o040000, 0o120000, 0o010000, 0o020000, 0o060000, 0o140000]
    perms = list(range(4096)) if not quick else sorted(set([0, 0o777, 0o7777, 0o4000, 0o2000, 0o1000, 0o4111, 0o644] +
                                                           [ctx.rng.below(4096) for _ in range(150)]))
    members = []
    for t in types:
        for p in perms:
            nm = "t%o-%04o%s" % (t >> 12, p, "/" if t == 0o040000 else "")
            members.append({"name": nm, "size": 0 if t != 0o100000 else 3, "mode": t | p})
    fstree.write_zip(os.path.join(root, "modes.zip"), members)
    cols = ["name", "mode"] + PRED_COLS
    q = "select %s from . arc where name like '%%modes.zip] t%%' into list" % ", ".join(cols)
    snap = corr.Snap(scratch, None, root=root)
    ctx.case(("modes-zip", q))
    m, impl = corr.run_case(ctx, snap, [q], fmt="list", ncols=len(cols), timeout=300)
    rows = rows_of(impl["out"], len(cols)) if impl["status"] == 0 else None
    if rows is None or len(rows) != len(members):
        ctx.oracle_fail("zip member mode query failed or lost members", {"argv": [q]},
                        detail={"status": impl["status"], "rows": None if rows is None else len(rows), "members": len(members)})
    else:
        by = {("[modes.zip] " + mm["name"]).encode(): mm["mode"] for mm in members}
        for row in rows:
            md = by.get(row[0])
            if md is None:
                ctx.oracle_fail("unexpected member row", {"argv": [q]}, detail={"row": row[0].decode("utf-8", "replace")})
                break
            want = [row[0], py_mode_string(md).encode()] + [bstr(x) for x in py_preds(md)]
            if row != want:
                ctx.oracle_fail("zip-entry mode columns differ from the stored mode", {"argv": [q], "member": row[0].decode(), "mode": oct(md)},
                                detail={"got": [x.decode() for x in row], "want": [x.decode() for x in want]})
                break
    ctx.count("zip_mode_members", len(members))
    common.rm_tree(root)


def content_of(kind, size, r):
    if kind == "nl-every":
        k = r.choice([1, 2, 7, 64, 100, 1023, 4096])
        return bytes(10 if (i % k == k - 1) else 97 + (i % 23) for i in range(size))
    if kind == "no-trailing":
        b = bytearray(bytes(10 if (i % 61 == 0) else 98 for i in range(size)))
        if b:
            b[-1] = 120
        return bytes(b)
    if kind == "binary":
        return bytes((i * 131 + 7) & 0xFF for i in range(size))
    if kind == "shebang":
        return (b"#!/bin/sh\n" + bytes(10 if i % 40 == 39 else 101 for i in range(size)))[:size]
    if kind == "needle":
        b = bytearray(bytes(10 if i % 97 == 96 else 46 for i in range(size)))
        for pos in (0, 4090, 8188, 8190, 32764, 65533):
            if pos + 6 <= size:
                b[pos:pos + 6] = b"NEEDLE"
                break
        # a second needle that runs over a line break (the text is searched as a whole, not line by line)
        for pos in (40, 8180, 33000):
            if pos + 10 <= size and r.chance(2, 3):
                b[pos:pos + 10] = b"LINE\nBREAK"
                break
        return bytes(b)
    return b"\n" * size


def part_content(ctx, scratch, quick):
    root = os.path.join(scratch, "content")
    os.makedirs(root)
    sizes = [0, 1, 2, 3, 8191, 8192, 8193, 16384, 32767, 32768, 32769, 32778, 65535, 65536, 65537, 70001, 100003, 131072, 200000]
    if quick:
        sizes = [0, 1, 2, 8191, 8192, 8193, 32768, 32769, 65536, 65537, 70001, 100003]
    kinds = ["nl-every", "no-trailing", "binary", "shebang", "needle", "all-nl"]
    want = {}
    n = 0
    for sz in sizes:
        for k in kinds:
            if quick and ctx.rng.chance(1, 3) and sz not in (32769, 70001, 100003):
                continue
            data = content_of(k, sz, ctx.rng)
            nm = "c%03d-%s-%d.dat" % (n, k, sz)
            n += 1
            with open(os.path.join(root, nm), "wb") as f:
                f.write(data)
            try:
                txt = data.decode("utf-8")
                cont = bstr("NEEDLE" in txt)
                cont2 = bstr("LINE\nBREAK" in txt)
            except UnicodeDecodeError:
                cont = cont2 = b""
            want[nm.encode()] = [str(len(data)).encode(), str(data.count(b"\n")).encode(), hashlib.sha1(data).hexdigest().encode(),
                                 hashlib.sha256(data).hexdigest().encode(), hashlib.sha512(data).hexdigest().encode(),
                                 hashlib.sha3_512(data).hexdigest().encode(), bstr(data[:2] == b"#!"), cont, cont2, bstr(len(data) == 0)]
    os.symlink(sorted(os.listdir(root))[3], os.path.join(root, "zz-link"))
    cols = ["name", "size", "line_count", "sha1", "sha256", "sha512", "sha3", "is_shebang", "contains(NEEDLE)", "contains('LINE\nBREAK')", "is_empty"]
    q = "select %s from . into list" % ", ".join(cols)
    snap = corr.Snap(scratch, None, root=root)
    ctx.case(("content", q))
    # the snapshot carries file text only up to 4 KiB: the model answers CONTAINS for small files only, so the
    # correspondence uses the query without CONTAINS and the oracle judges all columns
    q2 = "select %s from . into list" % ", ".join(c for c in cols if not c.startswith("contains"))
    corr.run_case(ctx, snap, [q2], fmt="list", ncols=len(cols) - 2, timeout=60)
    impl = common.run_cli([q], cwd=root, scratch=scratch, timeout=60)
    rows = rows_of(impl["out"], len(cols)) if impl["status"] == 0 else None
    if rows is None:
        ctx.oracle_fail("content query failed", {"argv": [q]}, detail={"status": impl["status"], "err": impl["err"][:300].decode("utf-8", "replace")})
    else:
        got = {r[0]: r[1:] for r in rows}
        for nm, w in want.items():
            if got.get(nm) != w:
                g = got.get(nm)
                bad = [cols[i + 1] for i in range(len(w)) if g is None or g[i] != w[i]]
                ctx.oracle_fail("content-derived columns differ from the real digests/counts", {"argv": [q], "file": nm.decode(), "columns": bad},
                                detail={"got": None if g is None else [x.decode()[:40] for x in g], "want": [x.decode()[:40] for x in w]})
                break
        # the link's content columns are those of its target
        lk = got.get(b"zz-link")
        tgt = want[sorted(want)[3]] if len(want) > 3 else None
        if lk is not None and tgt is not None and sorted(os.listdir(root))[3].encode() in want:
            tw = want[sorted(os.listdir(root))[3].encode()]
            if lk[1:9] != tw[1:9]:
                ctx.oracle_fail("a link's content columns are not those of its target", {"argv": [q], "file": "zz-link"},
                                detail={"got": [x.decode()[:40] for x in lk], "want": [x.decode()[:40] for x in tw]})
    ctx.count("content_files", len(want))
    common.rm_tree(root)


def part_owner_xattr(ctx, scratch, quick):
    root = os.path.join(scratch, "owners")
    os.makedirs(root)
    owners = [(0, 0), (65534, 65534), (12345, 54321), (1, 0), (0, 4294967294 - 1), (7, 7)]
    for i, (u, g) in enumerate(owners):
        p = os.path.join(root, "o%d.txt" % i)
        with open(p, "w") as f:
            f.write("x" * i)
        os.chown(p, u, g)
    xattr_ok = True
    try:
        p = os.path.join(root, "x-user.txt")
        open(p, "w").write("a")
        os.setxattr(p, "user.alpha", b"one")
        os.setxattr(p, "user.beta", b"")
        p2 = os.path.join(root, "x-none.txt")
        open(p2, "w").write("b")
    except OSError:
        xattr_ok = False
        ctx.notes.append("user.* xattrs not supported on the scratch file system")
    caps_ok = True
    capfiles = {}
    try:
        specs = [(1 << 13, 0, 1), (1 << 0, 1 << 0, 0), ((1 << 40) | (1 << 31), 1 << 32, 1), (0, 1 << 21, 0), ((1 << 41) - 1, 0, 1)]
        if not quick:
            specs += [(1 << c, (1 << c) if c % 2 else 0, c % 3 == 0) for c in range(41)]
        for i, (pm, ih, ef) in enumerate(specs):
            p = os.path.join(root, "cap%02d.bin" % i)
            open(p, "w").write("c")
            raw = cap_blob(pm, ih, ef)
            os.setxattr(p, "security.capability", raw)
            capfiles["cap%02d.bin" % i] = os.getxattr(p, "security.capability")
    except OSError as e:
        caps_ok = False
        ctx.notes.append("security.capability cannot be set here (%s)" % e)
    cols = ["name", "uid", "gid", "user", "group", "size", "inode", "hardlinks", "blocks", "has_xattrs", "capabilities",
            "has_caps()", "has_cap(cap_net_raw)", "xattr(user.alpha)", "has_xattr(user.beta)", "modified"]
    q = "select %s from . into list" % ", ".join(cols)
    snap = corr.Snap(scratch, None, root=root)
    ctx.case(("owners", q))
    m, impl = corr.run_case(ctx, snap, [q], fmt="list", ncols=len(cols))
    rows = rows_of(impl["out"], len(cols)) if impl["status"] == 0 else None
    if rows is None:
        ctx.oracle_fail("owner/xattr query failed", {"argv": [q]}, detail={"status": impl["status"], "err": impl["err"][:300].decode("utf-8", "replace")})
        return
    for row in rows:
        nm = row[0].decode()
        st = os.lstat(os.path.join(root, nm))
        try:
            un = pwd.getpwuid(st.st_uid).pw_name
        except KeyError:
            un = ""
        try:
            gn = grp.getgrgid(st.st_gid).gr_name
        except KeyError:
            gn = ""
        xs = os.listxattr(os.path.join(root, nm))
        capraw = capfiles.get(nm)
        capt = py_caps(capraw) if capraw is not None else ""
        import time
        want = [row[0], str(st.st_uid), str(st.st_gid), un, gn, str(st.st_size), str(st.st_ino), str(st.st_nlink), str(st.st_blocks),
                "true" if xs else "false", capt, "true" if capraw is not None else "false",
                ("true" if "cap_net_raw" in capt else "false") if capraw is not None else "",
                "one" if "user.alpha" in xs else "", "true" if "user.beta" in xs else "false",
                time.strftime("%Y-%m-%d %H:%M:%S", time.gmtime(int(st.st_mtime)))]
        want = [x if isinstance(x, bytes) else x.encode() for x in want]
        if row != want:
            bad = [cols[i] for i in range(len(cols)) if row[i] != want[i]]
            ctx.oracle_fail("owner/xattr/capability columns differ from lstat/getxattr", {"argv": [q], "entry": nm, "columns": bad},
                            detail={"got": [x.decode("utf-8", "replace") for x in row], "want": [x.decode("utf-8", "replace") for x in want]})
            break
    ctx.count("owner_xattr_entries", len(rows))
    ctx.count("xattr_supported", 1 if xattr_ok else 0)
    ctx.count("caps_supported", 1 if caps_ok else 0)
    common.rm_tree(root)


NAMES = [".hidden", ".hidden.txt", "..dots", "a.b.c.TXT", "archive.tar.gz", "UPPER.ZIP", "noext", "trailing.", ".", "x.Mp3", "photo.JPeG",
         "book.epub", "font.TTF", "movie.mkv", "lib.rs", "doc.docx", "weird.7z", "two..dots", "sp ace.txt", "ünï.çödé", "a.custom1",
         "b.CUSTOM2", "data.bin", ".bashrc", "...", "x.y.z.w", "Makefile", "name.with.many.dots.tar.bz2", "backup.tar.gz",
         "BACKUP.TAR.GZ", "shot.raw", "straw", "sketch.RAW", "gz", "tar.gz", "x.targz"]
CLASSES = ["is_archive", "is_audio", "is_book", "is_doc", "is_font", "is_image", "is_source", "is_video"]


def part_names(ctx, scratch, quick):
    root = os.path.join(scratch, "names")
    os.makedirs(os.path.join(root, "sub.dir", "inner"))
    for d in (root, os.path.join(root, "sub.dir"), os.path.join(root, "sub.dir", "inner")):
        for nm in NAMES:
            if nm in (".", "..", "..."):
                if nm != "...":
                    continue
            with open(os.path.join(d, nm), "w") as f:
                f.write("" if len(nm) % 3 == 0 else nm)
    defaults = None
    configs = [None]
    for cls in CLASSES:
        configs.append({cls: [".custom1", ".custom2", ".bin"]})
        # entries with an inner dot and entries without a leading dot: "the lower-cased name ends with the entry"
        configs.append({cls: [".tar.gz", "raw"]})
    configs.append({c: [] for c in CLASSES})
    if quick:
        configs = [None] + [ctx.rng.choice(configs[1:-1:2]) for _ in range(2)] + [ctx.rng.choice(configs[2:-1:2]) for _ in range(2)] + [configs[-1]]
    cols = ["name", "ext", "path", "dir", "abspath", "absdir", "is_hidden", "is_empty", "size"] + CLASSES
    q = "select %s from . into list" % ", ".join(cols)
    import extract_defaults
    defaults = extract_defaults.ext_lists()
    for ci, cfg in enumerate(configs):
        snap = corr.Snap(scratch, None, root=root)
        cfgpath = None
        active = dict(defaults)
        if cfg is not None:
            cfgpath = os.path.join(scratch, "cfg%d.toml" % ci)
            with open(cfgpath, "w") as f:
                for k, v in cfg.items():
                    f.write("%s = [%s]\n" % (k, ", ".join('"%s"' % x for x in v)))
            active.update(cfg)
            snap.send(ctx.model, snap.root, cfg=cfg) if ctx.model_ok else None
        elif ctx.model_ok:
            snap.send(ctx.model, snap.root)
        ctx.case(("names", ci, q))
        m, impl = corr.run_case(ctx, snap, [q], fmt="list", ncols=len(cols), config=cfgpath, extra={"config": cfg})
        rows = rows_of(impl["out"], len(cols)) if impl["status"] == 0 else None
        if rows is None:
            ctx.oracle_fail("names query failed", {"argv": [q], "config": cfg}, detail={"status": impl["status"], "err": impl["err"][:300].decode("utf-8", "replace")})
            continue
        real = os.path.realpath(root)
        for row in rows:
            path = row[2].decode()
            name = row[0].decode()
            full = os.path.normpath(os.path.join(root, path))
            st = os.lstat(full)
            stem_ext = name.rsplit(".", 1)
            ext = stem_ext[1] if (len(stem_ext) == 2 and stem_ext[0] != "" and name != "..") else ""
            if name.startswith(".") and name.count(".") == 1:
                ext = ""
            d = os.path.dirname(path)
            want = [os.path.basename(path), ext, path, d, os.path.join(real, os.path.normpath(path)),
                    os.path.dirname(os.path.join(real, os.path.normpath(path))),
                    "true" if name.startswith(".") else "false",
                    ("true" if not os.listdir(full) else "false") if stat.S_ISDIR(st.st_mode) else ("true" if st.st_size == 0 else "false"),
                    str(st.st_size)]
            for cls in CLASSES:
                want.append("true" if any(name.lower().endswith(x) for x in active[cls]) else "false")
            want = [x.encode() for x in want]
            if row != want:
                bad = [cols[i] for i in range(len(cols)) if row[i] != want[i]]
                ctx.oracle_fail("name/ext/dir/path decomposition or extension class differs", {"argv": [q], "config": cfg, "entry": path, "columns": bad},
                                detail={"got": [x.decode("utf-8", "replace") for x in row], "want": [x.decode("utf-8", "replace") for x in want]})
                break
        ctx.count("name_rows", len(rows))
    common.rm_tree(root)


def part_links(ctx, scratch, quick):
    """location columns of symbolic links: the entry's own location, not the target's"""
    import importlib
    c18 = importlib.import_module("props.C18")
    for t in range(6 if quick else 150):
        r = ctx.rng.fork()
        ents, links = c18.link_tree(r)
        top = os.path.join(scratch, "lk%d" % t)
        os.makedirs(top)
        fstree.materialise(top, ents)
        c18.make_links(top, links, r)
        snap = corr.Snap(scratch, None, root=top)
        spelled, cwd = r.choice([(".", os.path.join(top, "root")), ("root", top), (os.path.join(top, "root"), top)])
        cols = ["path", "name", "dir", "abspath", "absdir", "is_symlink", "size", "mode", "inode", "hardlinks", "is_file", "is_dir"]
        # every other tree is searched with `symlinks`: the columns of a link stay the link's own (lstat),
        # whether or not the search goes through it
        follow = t % 2 == 1
        q = "select %s from %s %s into list" % (", ".join(cols), spelled, r.choice(["", "dfs"]) + (" symlinks" if follow else ""))
        ctx.case(("links", t, q))
        case = {"argv": [q], "cwd": os.path.relpath(cwd, top), "links": ["%s -> %s" % (a, b) for a, b in links]}
        m, impl = corr.run_case(ctx, snap, [q], fmt="list", ncols=len(cols), cwd=cwd, extra={"links": case["links"]})
        rows = rows_of(impl["out"], len(cols)) if impl["status"] == 0 else None
        if rows is None:
            ctx.oracle_fail("location columns query failed", case, detail={"status": impl["status"], "err": impl["err"][:300].decode("utf-8", "replace")})
            continue
        nlinks = 0
        for row in rows:
            path = row[0].decode("utf-8", "surrogateescape")
            full = path if os.path.isabs(path) else os.path.join(cwd, path)
            islnk = os.path.islink(full)
            nlinks += islnk
            want = {"name": os.path.basename(path), "dir": os.path.dirname(path),
                    "is_symlink": "true" if islnk else "false"}
            if not follow:
                # (behind a followed link the spelled path contains links; `absdir` is then judged by C18)
                want["absdir"] = os.path.realpath(os.path.dirname(os.path.normpath(full)))
            if os.path.exists(full) and not follow:
                want["abspath"] = os.path.realpath(full)       # canonical: a link resolves to what it points at
            try:
                st = os.lstat(full)
                want.update({"size": str(st.st_size), "mode": py_mode_string(st.st_mode), "inode": str(st.st_ino),
                             "hardlinks": str(st.st_nlink), "is_file": "true" if stat.S_ISREG(st.st_mode) else "false",
                             "is_dir": "true" if stat.S_ISDIR(st.st_mode) else "false"})
            except OSError:
                pass
            got = {c: row[i].decode("utf-8", "surrogateescape") for i, c in enumerate(cols)}
            bad = [c for c in want if got[c] != want[c]]
            if bad:
                ctx.oracle_fail("location column of an entry (symbolic links included) is not the entry's own location", dict(case, entry=path, columns=bad),
                                detail={"got": {c: got[c] for c in bad}, "want": {c: want[c] for c in bad}})
                break
        ctx.count("link_rows", nlinks)
        if nlinks:
            ctx.distinct.add(("links", t, "nt"))
        common.rm_tree(top)


def part_times(ctx, scratch, quick):
    """the `modified` column is the entry's own modification time in local time — under the offset in force at that
    instant, which in a zone with daylight saving differs between a winter and a summer file"""
    import oracle
    for zi, tz in enumerate(list(fstree.DST_ZONES) + ["UTC", "<+03>-3"]):
        ents = []
        for k, (mt, nm) in enumerate([(1673784000, "jan"), (1689422400, "jul"), (1698541200, "oct-change-day"), (1711846800, "mar-change-day"),
                                      (946684799, "y1999"), (1700000000, "nov")]):
            ents.append({"path": "%s.txt" % nm, "kind": "f", "size": k, "mode": 0o644, "mtime": mt})
        ents.append({"path": "summer-dir", "kind": "d", "mode": 0o755, "mtime": 1688212800})
        snap = corr.Snap(scratch, ents, subdir="tm%d" % zi, tz=tz)
        q = "select name, modified from . into list"
        ctx.case(("times", tz, q))
        ctx.distinct.add(("times", tz, "nt"))
        m, impl = corr.run_case(ctx, snap, [q], fmt="list", ncols=2)
        vals = impl["out"].split(b"\0")[:-1]
        for i in range(0, len(vals) - 1, 2):
            node = next((n for n in snap.nodes if n["name"].encode() == vals[i]), None)
            if node is None:
                continue
            want = oracle.column(node, "modified", tz=tz)
            if vals[i + 1].decode() != want:
                ctx.oracle_fail("`modified` is not the entry's modification time in local time (offset of that instant)", {"argv": [q], "tz": tz, "entry": node["name"]},
                                detail={"got": vals[i + 1].decode(), "want": want})
                break
        common.rm_tree(snap.root)


def run(ctx):
    quick = ctx.tier == "quick"
    part_h(ctx, quick)
    scratch = common.new_scratch()
    try:
        part_content(ctx, scratch, quick)
        part_owner_xattr(ctx, scratch, quick)
        part_names(ctx, scratch, quick)
        part_links(ctx, scratch, quick)
        part_times(ctx, scratch, quick)
        part_modes_disk(ctx, scratch, quick)
        part_zip_modes(ctx, scratch, quick)
    finally:
        common.rm_tree(scratch)
