"""C18: following symlinks finds what is behind them, once, and always terminates."""
import os

import common
import corr
import fstree

RULE = ("generated trees (a search root plus directories outside and above it) decorated with symbolic links: "
        "targets absolute and relative, to files, to directories inside / outside / above the root, to ancestors "
        "(cycles), chains, mutual pairs, self links, dangling links, at depth 1..4; roots spelled `.`, relative and "
        "absolute; bfs and dfs; with and without depth windows; with and without the option. (a) CLI correspondence "
        "with the Lean model (rows in order, status, stderr); (b) oracle for `symlinks`: termination within the time "
        "limit, status 0 and empty stderr, every row is an entry (parent real directory, name) of a real directory "
        "reachable from the root through directories and links to directories, each such entry exactly once (an "
        "os.listdir closure with realpath de-duplication); bfs and dfs return the same entry set; (c) without the "
        "option: rows are exactly the entries of the plain traversal — no row from behind a link. distinct = (tree, "
        "argv); nontrivial = the tree has a link to a directory")


def link_tree(r):
    """entries below `top`: root/ (searched), out/ (outside), plus links"""
    ents = []
    dirs = ["root"]
    # a second outside directory whose name merely *starts with* the root's name: outside the root all the same
    sibling = [("root-old", r.range(0, 2))] if r.chance(1, 2) else []
    for base, n in [("root", r.range(2, 6)), ("out", r.range(1, 3))] + sibling:
        ents.append({"path": base, "kind": "d", "mode": 0o755, "mtime": 1700000000})
        cur = [base]
        for i in range(n):
            parent = r.choice(cur)
            if parent.count("/") >= 4:
                parent = base
            d = "%s/d%d" % (parent, i)
            ents.append({"path": d, "kind": "d", "mode": 0o755, "mtime": 1700000000 + i})
            cur.append(d)
            if base == "root":
                dirs.append(d)
        for j, d in enumerate(cur):
            for k in range(r.range(0, 2)):
                ents.append({"path": "%s/f%d_%d.txt" % (d, j, k), "kind": "f", "size": r.choice([0, 3, 10]), "mode": 0o644,
                             "mtime": 1700000100 + k, "lines": 1})
    # two directories whose names differ in letter case only are two directories
    twins = r.chance(1, 2)
    if twins:
        for d, f in (("out/Lib", "BIG.so"), ("out/lib", "small.so")):
            ents.append({"path": d, "kind": "d", "mode": 0o755, "mtime": 1700000000})
            ents.append({"path": d + "/" + f, "kind": "f", "size": 3, "mode": 0o644, "mtime": 1700000200, "lines": 1})
    alld = [e["path"] for e in ents if e["kind"] == "d"]
    allf = [e["path"] for e in ents if e["kind"] == "f"]
    nl = r.range(1, 6)
    links = []
    for i in range(nl):
        where = r.choice(dirs)
        name = "%s/l%d" % (where, i)
        kind = r.below(10)
        if sibling and i == 0:
            tgt = r.choice([d for d in alld if d.startswith("root-old")])
        elif kind < 3:
            tgt = r.choice(alld)                       # directory inside or outside the root
        elif kind < 4:
            tgt = "."                                  # the top: above the root
        elif kind < 5 and allf:
            tgt = r.choice(allf)                       # a file
        elif kind < 6:
            tgt = None                                 # dangling
        elif kind < 7:
            tgt = where.rsplit("/", 1)[0] if "/" in where else "root"     # an ancestor (cycle)
        elif kind < 8 and links:
            tgt = r.choice(links)[0]                   # chain / mutual
        elif kind < 9:
            tgt = name                                 # self link
        else:
            tgt = r.choice(alld)
        links.append((name, tgt))
    if twins:
        links.append(("root/to-Lib", "out/Lib"))
        links.append(("root/to-lib", "out/lib"))
    return ents, links


def make_links(top, links, r):
    for name, tgt in links:
        p = os.path.join(top, name)
        if tgt is None:
            os.symlink("nowhere-%d" % r.below(100), p)
            continue
        absolute = r.chance(1, 2)
        t_abs = os.path.normpath(os.path.join(top, tgt))
        if absolute:
            os.symlink(t_abs, p)
        else:
            os.symlink(os.path.relpath(t_abs, os.path.dirname(p)), p)
    # one mutual pair
    if r.chance(1, 3):
        a, b = os.path.join(top, "root", "ma"), os.path.join(top, "root", "mb")
        if not os.path.lexists(a) and not os.path.lexists(b):
            os.symlink("mb", a)
            os.symlink("ma", b)


def reachable_entries(root_real):
    """(real parent dir, name) of every entry of every real directory reachable by following links to directories"""
    seen = set()
    todo = [root_real]
    out = set()
    while todo:
        d = todo.pop()
        if d in seen:
            continue
        seen.add(d)
        try:
            names = os.listdir(d)
        except OSError:
            continue
        for nm in names:
            out.add((d, nm))
            p = os.path.join(d, nm)
            if os.path.isdir(p):          # follows links; false for dangling links and loops
                todo.append(os.path.realpath(p))
    return out


def plain_entries(root):
    out = []
    for dp, dn, fn in os.walk(root, followlinks=False):
        for nm in dn + fn:
            out.append(os.path.join(dp, nm))
    return out


def run(ctx):
    quick = ctx.tier == "quick"
    ntrees = 14 if quick else 1500
    scratch = common.new_scratch()
    try:
        for t in range(ntrees):
            r = ctx.rng.fork()
            ents, links = link_tree(r)
            top = os.path.join(scratch, "t%d" % t)
            os.makedirs(top)
            fstree.materialise(top, ents)
            make_links(top, links, r)
            snap = corr.Snap(scratch, None, root=top)
            root_abs = os.path.join(top, "root")
            root_real = os.path.realpath(root_abs)
            has_dirlink = any(n["kind"] == "l" and os.path.isdir(os.path.join(top, n["rel"])) for n in snap.nodes)
            want = reachable_entries(root_real)
            spellings = [(".", root_abs), (root_abs, top), ("root", top), ("./root", top)]
            sets = {}
            for trav in ("bfs", "dfs"):
                spelled, cwd = r.choice(spellings)
                q = "select path from %s symlinks %s into list" % (spelled, trav)
                ctx.case((t, q))
                if has_dirlink:
                    ctx.distinct.add((t, q, "nt"))
                ctx.hist("links_in_tree", min(len(links), 6))
                case = {"argv": [q], "cwd": os.path.relpath(cwd, top), "links": ["%s -> %s" % (a, b) for a, b in links],
                        "tree": [n["rel"] for n in snap.nodes][:40]}
                m, impl = corr.run_case(ctx, snap, [q], fmt="list", ncols=1, cwd=cwd, extra={"links": case["links"]})
                if impl["timed_out"]:
                    ctx.oracle_fail("the search with `symlinks` did not terminate", case)
                    continue
                if common.panicked(impl) or impl["status"] != 0 or impl["err"] != b"":
                    ctx.oracle_fail("`symlinks`: status must be 0 and stderr empty when nothing is unreadable", case,
                                    detail={"status": impl["status"], "err": impl["err"][:300].decode("utf-8", "replace")})
                    continue
                rows = [x.decode("utf-8", "surrogateescape") for x in impl["out"].split(b"\0")[:-1]]
                keys = []
                for p in rows:
                    full = p if os.path.isabs(p) else os.path.join(cwd, p)
                    keys.append((os.path.realpath(os.path.dirname(full)), os.path.basename(full)))
                if len(set(keys)) != len(keys):
                    dup = sorted(k for k in set(keys) if keys.count(k) > 1)[:3]
                    ctx.oracle_fail("an entry behind links is listed more than once", case, detail={"duplicates": [os.path.join(*k) for k in dup]})
                    continue
                if set(keys) != want:
                    missing = sorted(want - set(keys))[:5]
                    extra = sorted(set(keys) - want)[:5]
                    ctx.oracle_fail("rows with `symlinks` are not exactly the entries of the directories reachable through links", case,
                                    detail={"missing": [os.path.join(*k) for k in missing], "unexpected": [os.path.join(*k) for k in extra]})
                    continue
                sets[trav] = set(keys)
            if len(sets) == 2 and sets["bfs"] != sets["dfs"]:
                ctx.oracle_fail("bfs and dfs return different entries with `symlinks`", {"tree": t, "links": ["%s -> %s" % (a, b) for a, b in links]})
            # two roots with `symlinks` that share directories (a root and one of its own sub-directories, or the same
            # root twice): still every real directory at most once per query, and nothing reachable is lost
            subdirs = [n["rel"] for n in snap.nodes if n["kind"] == "d" and n["rel"].startswith("root/")]
            second = os.path.join(top, r.choice(subdirs)) if subdirs and r.chance(2, 3) else root_abs
            first, other = (root_abs, second) if r.chance(1, 2) else (second, root_abs)
            trav2 = r.choice(["bfs", "dfs"])
            q2 = "select path from %s symlinks %s, %s symlinks %s into list" % (first, trav2, other, trav2)
            ctx.case((t, q2))
            r2 = common.run_cli([q2], cwd=top, scratch=scratch)
            case2 = {"argv": [q2], "cwd": ".", "links": ["%s -> %s" % (a, b) for a, b in links], "tree": [n["rel"] for n in snap.nodes][:40]}
            if r2["timed_out"] or common.panicked(r2) or r2["status"] != 0:
                ctx.oracle_fail("two roots with `symlinks`: crash, hang or bad status", case2, detail={"status": r2["status"], "err": r2["err"][:300].decode("utf-8", "replace")})
            else:
                rows2 = [x.decode("utf-8", "surrogateescape") for x in r2["out"].split(b"\0")[:-1]]
                keys2 = [(os.path.realpath(os.path.dirname(p)), os.path.basename(p)) for p in rows2]
                want2 = reachable_entries(os.path.realpath(first)) | reachable_entries(os.path.realpath(other))
                if len(set(keys2)) != len(keys2):
                    dup = sorted(k for k in set(keys2) if keys2.count(k) > 1)[:3]
                    ctx.oracle_fail("two roots with `symlinks`: an entry is listed more than once in one query", case2,
                                    detail={"duplicates": [os.path.join(*k) for k in dup]})
                elif set(keys2) != want2:
                    ctx.oracle_fail("two roots with `symlinks`: rows are not exactly the entries of the directories reachable from the roots", case2,
                                    detail={"missing": [os.path.join(*k) for k in sorted(want2 - set(keys2))[:5]],
                                            "unexpected": [os.path.join(*k) for k in sorted(set(keys2) - want2)[:5]]})
            # depth windows with links: model only
            # `mindepth 1` is no restriction: level 1 is the smallest level there is, also behind a link that leads above the root
            spelled, cwd = r.choice(spellings)
            trav1 = r.choice(["", "dfs"])
            q1 = "select path from %s sym mindepth 1 %s into list" % (spelled, trav1)
            q0 = "select path from %s sym %s into list" % (spelled, trav1)
            ctx.case((t, q1))
            m, impl = corr.run_case(ctx, snap, [q1], fmt="list", ncols=1, cwd=cwd)
            ref0 = common.run_cli([q0], cwd=cwd, scratch=scratch)
            if not impl["timed_out"] and sorted(impl["out"].split(b"\0")) != sorted(ref0["out"].split(b"\0")):
                ctx.oracle_fail("`mindepth 1` with `symlinks` must return what the query without a depth window returns",
                                {"argv": [q1], "cwd": os.path.relpath(cwd, top), "links": ["%s -> %s" % (a, b) for a, b in links]},
                                detail={"rows": impl["out"].count(b"\0"), "rows_without_window": ref0["out"].count(b"\0")})
            for _ in range(2):
                spelled, cwd = r.choice(spellings)
                q = "select path from %s sym %s %s into list" % (spelled, r.choice(["depth 1", "depth 2", "mindepth 1", "mindepth 2", "mindepth 2 depth 3", "mindepth 1 depth 2"]), r.choice(["", "dfs"]))
                ctx.case((t, q))
                m, impl = corr.run_case(ctx, snap, [q], fmt="list", ncols=1, cwd=cwd)
                if impl["timed_out"] or common.panicked(impl):
                    ctx.oracle_fail("depth window with `symlinks`: crash or hang", {"argv": [q], "links": ["%s -> %s" % (a, b) for a, b in links]},
                                    detail={"err": impl["err"][-300:].decode("utf-8", "replace")})
            # without the option
            q = "select path from %s %s into list" % (root_abs, r.choice(["", "dfs"]))
            ctx.case((t, q))
            m, impl = corr.run_case(ctx, snap, [q], fmt="list", ncols=1, cwd=top)
            rows = sorted(x.decode("utf-8", "surrogateescape") for x in impl["out"].split(b"\0")[:-1])
            if rows != sorted(plain_entries(root_abs)) or impl["status"] != 0:
                ctx.oracle_fail("without `symlinks` the rows must be the plain traversal (nothing from behind a link)",
                                {"argv": [q], "links": ["%s -> %s" % (a, b) for a, b in links]},
                                detail={"rows": len(rows), "expected": len(plain_entries(root_abs)), "status": impl["status"]})
            if t < 3:
                ctx.sample({"links": ["%s -> %s" % (a, b) for a, b in links], "reachable_entries": len(want)})
            common.rm_tree(top)
    finally:
        common.rm_tree(scratch)
