"""C17: one failing directory, file or reader never spoils the rest of the search."""
import fcntl
import os
import shutil
import subprocess
import threading

import common
import corr
import fstree

RULE = ("(A) generated trees searched as uid 65534 (setpriv): first with everything accessible, then with 1..4 "
        "directories made unlistable (mode 000/700/311) and 0..3 files unreadable (mode 000/600), plus dangling "
        "links; queries: metadata-only, content-derived (line_count, sha1, sha256, is_shebang, contains) and "
        "aggregate columns x bfs/dfs x streamed/ordered/limited x 6 formats. Each faulty run is compared with the "
        "Lean model on a snapshot taken as the same uid (correspondence), and with the oracle: rows = rows of the "
        "fault-free run minus those strictly below a failing directory, content columns of unreadable files "
        "empty and every other value identical, one stderr line naming each reachable failing directory, status "
        "1; fault-free run: status 0, empty stderr; roots that are missing / not a directory / unlistable next to "
        "a good root. (B) closed stdout: a pipe shrunk to 4 KiB whose reader closes after k bytes (k = 0.., every "
        "offset in the thorough tier), 6 formats x streamed/ordered/aggregated: no panic, status 0 or 1, bytes "
        "received are a prefix of the full output; (C) deterministic write faults: stdout on a FIFO under "
        "`strace -P fifo -e inject=write:error=EPIPE:when=k+` for every write index k; (D) failing reader: with `archives`, "
        "archives that are unreadable for the uid, empty, truncated or no zip at all, named so that siblings follow on "
        "either side: the ordinary rows are exactly those of the run without `archives` (streamed, ordered, counted). distinct = (tree, faults, "
        "argv) or (format, path, offset); nontrivial = at least one fault is met by the walk / the pipe closes "
        "before the last byte")

FORMATS = ["tabs", "lines", "list", "csv", "json", "html"]
META = ["name", "size", "is_dir", "is_file", "is_symlink", "uid", "ext", "modified", "is_hidden"]
CONTENT = ["line_count", "sha1", "sha256", "is_shebang", "contains(bc)"]
EMPTY_OF = {"line_count": b"", "sha1": b"", "sha256": b"", "is_shebang": b"false", "contains(bc)": b""}


def healthy_tree(r, n):
    ents = fstree.gen_tree(r, max_entries=n, kinds="fdl", max_depth=5)
    for e in ents:
        if e["kind"] == "d":
            e["mode"] = 0o755
        elif e["kind"] == "f":
            e["mode"] = r.choice([0o644, 0o755, 0o444])
            e["size"] = min(e.get("size", 0), 4096)
    if not any(e["kind"] == "d" for e in ents):
        ents.append({"path": "zd", "kind": "d", "mode": 0o755, "mtime": 1700000000})
        ents.append({"path": "zd/inner.txt", "kind": "f", "size": 9, "mode": 0o644, "mtime": 1700000001, "lines": 1})
    if not any(e["kind"] == "f" for e in ents):
        ents.append({"path": "zf.txt", "kind": "f", "size": 20, "mode": 0o644, "mtime": 1700000002, "lines": 2})
    return ents


def rows_of(out, w):
    vals = out.split(b"\0")
    if vals and vals[-1] == b"":
        vals = vals[:-1]
    if len(vals) % w:
        return None
    return [vals[i:i + w] for i in range(0, len(vals), w)]


def part_a(ctx, scratch, quick):
    ntrees = 10 if quick else 90
    for t in range(ntrees):
        r = ctx.rng.fork()
        ents = healthy_tree(r, r.choice([4, 9, 16, 30]))
        root = os.path.join(scratch, "a%d" % t)
        os.makedirs(root)
        os.chmod(root, 0o755)
        healthy = corr.Snap(scratch, ents, root=root, tz=r.choice(list(fstree.TZ_OFFSETS)), as_nobody=True)
        dirs = [e["path"] for e in ents if e["kind"] == "d"]
        files = [e["path"] for e in ents if e["kind"] == "f"]
        fd = r.sample(dirs, min(len(dirs), r.choice([1, 1, 2, 4])))
        ff = r.sample(files, min(len(files), r.choice([0, 1, 3])))
        trav = r.choice(["", " bfs", " dfs"])
        cols = ["path"] + r.sample(META, r.range(1, 3)) + r.sample(CONTENT, r.range(0, 3))
        w = len(cols)
        q_rows = "select %s from .%s into list" % (", ".join(cols), trav)
        h = common.run_cli([q_rows], cwd=root, scratch=scratch, tz=healthy.tz, as_nobody=True)
        case0 = {"argv": [q_rows], "tree": [n["rel"] for n in healthy.nodes][:50], "as": "uid 65534"}
        ctx.case((t, "healthy", q_rows))
        if h["status"] != 0 or h["err"] != b"" or common.panicked(h):
            ctx.oracle_fail("fault-free run must exit 0 with an empty standard error", case0,
                            detail={"status": h["status"], "err": h["err"][:300].decode("utf-8", "replace")})
            continue
        corr.run_case(ctx, healthy, [q_rows], fmt="list", ncols=w)
        hrows = rows_of(h["out"], w)
        hagg = common.run_cli(["select count(*), sum(size), max(size), min(name) from . where is_file = true into list"],
                              cwd=root, scratch=scratch, tz=healthy.tz, as_nobody=True)
        # inject the faults
        for d in fd:
            os.chmod(os.path.join(root, d), r.choice([0o000, 0o700, 0o311]))
        for f in ff:
            os.chmod(os.path.join(root, f), r.choice([0o000, 0o600]))
        faulty = corr.Snap(scratch, None, root=root, tz=healthy.tz, as_nobody=True)
        fdp = ["./" + d for d in fd]
        reach = [p for p in fdp if not any(p.startswith(o + "/") for o in fdp if o != p)]
        hidden = lambda p: any(p.startswith(o + "/") for o in fdp)  # noqa: E731
        # entries whose content cannot be read now: the files made unreadable, and links whose target is one of
        # them or lies behind a directory that can no longer be entered (facts of the snapshot taken as uid 65534)
        ffp = set(("./" + f).encode() for f in ff)
        for n in faulty.nodes:
            if n["kind"] == "l" and "nl" not in n["facts"]:
                ffp.add(("./" + n["rel"]).encode())
        case = {"argv": [q_rows], "tree": case0["tree"], "unlistable": fd, "unreadable": ff, "as": "uid 65534"}
        ctx.case((t, "faulty", q_rows))
        ctx.distinct.add((t, q_rows, "nt"))
        ctx.hist("faults_dirs", len(reach))
        ctx.hist("faults_files", len(ff))
        m, f = corr.run_case(ctx, faulty, [q_rows], fmt="list", ncols=w, extra={"unlistable": fd, "unreadable": ff})
        if common.panicked(f) or f["timed_out"]:
            ctx.oracle_fail("faulty tree: crash or hang", case, detail={"err": f["err"][-300:].decode("utf-8", "replace")})
            continue
        frows = rows_of(f["out"], w)
        if hrows is None or frows is None:
            ctx.count("rows_ambiguous")
        else:
            want = []
            for row in hrows:
                p = row[0].decode("utf-8", "replace")
                if hidden(p):
                    continue
                if row[0] in ffp:
                    row = [EMPTY_OF[c] if c in EMPTY_OF else v for c, v in zip(cols, row)]
                want.append(row)
            if frows != want:
                k = next((i for i in range(min(len(frows), len(want))) if frows[i] != want[i]), min(len(frows), len(want)))
                ctx.oracle_fail("rows differ from the fault-free run outside the failing directories / unreadable files", case,
                                detail={"first_diff_row": k,
                                        "got": [x.decode("utf-8", "replace") for x in (frows[k] if k < len(frows) else [])],
                                        "want": [x.decode("utf-8", "replace") for x in (want[k] if k < len(want) else [])],
                                        "rows_got": len(frows), "rows_want": len(want)})
        # an ignore option with no ignore file anywhere changes nothing — in particular it does not cost the rows of
        # entries whose path cannot be resolved (dangling links, links behind an unlistable directory)
        ig = r.choice(["dockerignore", "hgignore", "gitignore"])
        q_ig = "select %s from . %s%s into list" % (", ".join(cols), ig, trav)
        ctx.case((t, "faulty", q_ig))
        fi = common.run_cli([q_ig], cwd=root, scratch=scratch, tz=healthy.tz, as_nobody=True)
        if fi["out"] != f["out"] or fi["status"] != f["status"]:
            ctx.oracle_fail("an ignore option without any ignore file changes the rows of a faulty tree", dict(case, argv=[q_ig]),
                            detail={"rows_with_option": fi["out"].count(b"\0") // max(w, 1), "rows_without": f["out"].count(b"\0") // max(w, 1),
                                    "status": [fi["status"], f["status"]]})
        # (messages are written with eprint!, without a line terminator: only the naming is judged)
        missing = [p for p in reach if (p.encode() + b": ") not in f["err"]]
        if missing or f["err"].count(b"(os error ") != len(reach) or f["status"] != 1:
            ctx.oracle_fail("failing directories must each be named once on standard error and the status must be 1", case,
                            detail={"status": f["status"], "stderr": f["err"][:400].decode("utf-8", "replace"), "reachable": reach})
        # other result paths on the faulty tree: correspondence + aggregate oracle
        for _ in range(3 if quick else 6):
            fmt = r.choice(FORMATS)
            shape = r.below(4)
            if shape == 0:
                q = "select %s from .%s order by %s into %s" % (", ".join(cols), r.choice(["", " bfs", " dfs"]),
                                                              r.choice(["name", "size desc, path", "path desc"]), fmt)
            elif shape == 1:
                q = "select %s from .%s where size > 2 limit %d into %s" % (", ".join(cols), trav, r.range(1, 6), fmt)
            elif shape == 2:
                # MIN over a column that is empty for the entries that cannot be read: the empty cells do not count
                q = "select count(*), sum(size), %s(line_count), min(name) from .%s into %s" % (r.choice(["max", "min", "min"]), trav, fmt)
            else:
                q = "select %s from . depth %d%s into %s" % (", ".join(cols), r.range(1, 3), trav, fmt)
            ctx.case((t, "faulty", q))
            ctx.hist("shape", ["ordered", "limited", "aggregate", "depth"][shape])
            corr.run_case(ctx, faulty, [q], fmt=fmt, ncols=w if shape != 2 else 4, extra={"unlistable": fd, "unreadable": ff})
        # MIN / MAX of a content column over the faulty tree = MIN / MAX over the per-row values the same tree shows
        # (the rows that cannot be read show an empty cell, which does not count)
        ql = "select line_count from .%s into list" % trav
        qm = "select min(line_count), max(line_count) from .%s into list" % trav
        rl = common.run_cli([ql], cwd=root, scratch=scratch, tz=healthy.tz, as_nobody=True)
        rm = common.run_cli([qm], cwd=root, scratch=scratch, tz=healthy.tz, as_nobody=True)
        ctx.case((t, "faulty", qm))
        nums = [int(x) for x in rl["out"].split(b"\0")[:-1] if x.isdigit()]
        gotm = rm["out"].split(b"\0")[:-1]
        if nums and len(gotm) == 2 and gotm != [str(min(nums)).encode(), str(max(nums)).encode()]:
            ctx.oracle_fail("MIN/MAX over a column with cells that are empty because of a read fault differ from the extremes of the readable cells",
                            {"argv": [qm], "rows_argv": [ql], "tree": case0["tree"], "unlistable": fd, "unreadable": ff, "as": "uid 65534"},
                            detail={"got": [g.decode() for g in gotm], "want": [min(nums), max(nums)]})
        qa = "select count(*), sum(size), max(size), min(name) from . where is_file = true into list"
        fa = common.run_cli([qa], cwd=root, scratch=scratch, tz=healthy.tz, as_nobody=True)
        if hrows is not None and "is_file" not in cols:
            pass
        if not fd and fa["out"] != hagg["out"]:
            ctx.oracle_fail("aggregates over metadata change when only file contents are unreadable",
                            {"argv": [qa], "unreadable": ff}, detail={"healthy": hagg["out"][:100].decode("utf-8", "replace"),
                                                                        "faulty": fa["out"][:100].decode("utf-8", "replace")})
        # failing roots next to a good one
        good = r.choice(dirs) if dirs else "."
        if good in fd or hidden("./" + good + "/x") or hidden("./" + good):
            good = "."
        for bad, what in (("no-such-dir", "missing"), (files[0] if files and "/" not in files[0] else "no-such-2", "not a directory"),
                          (fd[0] if "/" not in fd[0] else "no-such-3", "unlistable")):
            q = "select path from %s, %s%s into list" % (bad, good, trav)
            ctx.case((t, "root", q))
            mm, ri = corr.run_case(ctx, faulty, [q], fmt="list", ncols=1, extra={"unlistable": fd, "root": what})
            solo = common.run_cli(["select path from %s%s into list" % (good, trav)], cwd=root, scratch=scratch, tz=healthy.tz, as_nobody=True)
            if common.panicked(ri) or ri["status"] != 1 or not ri["out"].endswith(solo["out"]) or (bad.encode() not in ri["err"]):
                ctx.oracle_fail("a failing root (%s) must be named, give status 1 and leave the other root's rows intact" % what,
                                {"argv": [q], "unlistable": fd}, detail={"status": ri["status"], "err": ri["err"][:300].decode("utf-8", "replace"),
                                                                          "rows": ri["out"].count(b"\0"), "rows_good_root": solo["out"].count(b"\0")})
        if t < 2:
            ctx.sample({"argv": [q_rows], "unlistable": fd, "unreadable": ff, "rows_healthy": len(hrows or []), "rows_faulty": len(frows or [])})
        # restore so that the scratch tree can be removed
        for d in fd:
            os.chmod(os.path.join(root, d), 0o755)
        common.rm_tree(root)


def big_tree(scratch):
    root = os.path.join(scratch, "big")
    os.makedirs(root)
    ents = []
    for d in range(6):
        ents.append({"path": "dir%d" % d, "kind": "d", "mode": 0o755, "mtime": 1700000000 + d})
        for i in range(45):
            ents.append({"path": "dir%d/file-%02d-%s.txt" % (d, i, "x" * (i % 9)), "kind": "f", "size": (i * 37) % 500, "mode": 0o644,
                         "mtime": 1700001000 + i, "lines": i % 4})
    fstree.materialise(root, ents)
    return root


PIPE_QUERIES = [("streamed", "select name, size, path from . into %s"),
                ("ordered", "select name, size from . order by size desc, name into %s"),
                ("aggregated", "select path, count(*), sum(size) from . group by path into %s"),
                ("limited", "select path, modified from . limit 150 into %s")]


def close_after(argv, cwd, scratch, k, timeout=20):
    """run the binary with stdout on a 4 KiB pipe whose reader takes exactly k bytes and closes"""
    rd, wr = os.pipe()
    try:
        fcntl.fcntl(wr, 1031, 4096)      # F_SETPIPE_SZ
    except OSError:
        pass
    env = {"HOME": os.path.join(scratch, "home"), "TZ": "UTC", "NO_COLOR": "1", "RUST_BACKTRACE": "0", "PATH": "/usr/bin:/bin"}
    p = subprocess.Popen([common.FSELECT] + argv, cwd=cwd, env=env, stdin=subprocess.DEVNULL, stdout=wr, stderr=subprocess.PIPE)
    os.close(wr)
    got = b""
    while len(got) < k:
        chunk = os.read(rd, k - len(got))
        if not chunk:
            break
        got += chunk
    os.close(rd)
    try:
        _, err = p.communicate(timeout=timeout)
        return {"status": p.returncode, "got": got, "err": err, "timed_out": False}
    except subprocess.TimeoutExpired:
        p.kill()
        _, err = p.communicate()
        return {"status": None, "got": got, "err": err, "timed_out": True}


def judge_write_fault(ctx, what, case, res, full):
    bad = None
    if res["timed_out"]:
        bad = "hang after the output was closed"
    elif res["status"] == 101 or b"panicked at" in res["err"]:
        bad = "crash report (panic) after the output was closed"
    elif res["status"] not in (0, 1):
        bad = "status %r after the output was closed" % res["status"]
    elif full is not None and "got" in res and not full.startswith(res["got"]):
        bad = "bytes delivered before the close are not a prefix of the full output"
    if bad:
        ctx.oracle_fail(bad, case, detail={"status": res["status"], "stderr": res["err"][-400:].decode("utf-8", "replace")})
    ctx.hist(what + "_status", res["status"])


def part_b(ctx, scratch, quick):
    root = big_tree(scratch)
    for path, qt in PIPE_QUERIES:
        for fmt in FORMATS:
            q = qt % fmt
            full = common.run_cli([q], cwd=root, scratch=scratch, timeout=30)
            total = len(full["out"])
            if full["status"] != 0:
                ctx.oracle_fail("fault-free run of the pipe query failed", {"argv": [q]}, detail={"status": full["status"]})
                continue
            if quick:
                offs = sorted(set([0, 1, 2, 7, 63, 64, 100, 511, 1024, 4095, 4096, 4097, 5000, 8191, 8192, total // 2,
                                   max(total - 4097, 0), max(total - 100, 0), max(total - 1, 0), total] +
                                  [ctx.rng.below(total + 1) for _ in range(4)]))
            else:
                offs = list(range(0, min(total, 1500))) + list(range(1500, total + 1, 97)) + [total]
            for k in offs:
                if k > total:
                    continue
                ctx.case(("pipe", fmt, path, k))
                if k + 4096 < total:
                    ctx.distinct.add(("pipe", fmt, path, k, "nt"))     # the writer must meet the closed pipe
                res = close_after([q], root, scratch, k)
                # (the order of groups is unspecified without ORDER BY: no prefix judgement there)
                judge_write_fault(ctx, "pipe", {"argv": [q], "close_after_bytes": k, "of": total, "tree": "6 dirs x 45 files"}, res,
                                  None if path == "aggregated" else full["out"])
    return root


def part_c(ctx, scratch, root, quick):
    strace = shutil.which("strace")
    if not strace:
        ctx.notes.append("strace not available: deterministic write-fault enumeration skipped")
        return
    fifo = os.path.join(scratch, "out.fifo")
    os.mkfifo(fifo)
    env = {"HOME": os.path.join(scratch, "home"), "TZ": "UTC", "NO_COLOR": "1", "RUST_BACKTRACE": "0", "PATH": "/usr/bin:/bin"}
    ran = 0
    trace = os.path.join(scratch, "strace.out")
    for path, qt in PIPE_QUERIES:
        for fmt in FORMATS:
            q = (qt % fmt).replace("from .", "from dir0, dir1")
            ks = [1, 2, 3, 5, 8, 13, 40] if quick else list(range(1, 120))
            for k in ks:
                sink = []

                def drain():
                    with open(fifo, "rb") as fh:
                        sink.append(fh.read())
                th = threading.Thread(target=drain)
                th.start()
                try:
                    with open(fifo, "wb") as out:
                        p = subprocess.run([strace, "-o", trace, "-P", fifo, "-e", "trace=write",
                                            "-e", "inject=write:error=EPIPE:when=%d+" % k, common.FSELECT, q],
                                           cwd=root, env=env, stdin=subprocess.DEVNULL, stdout=out, stderr=subprocess.PIPE, timeout=30)
                    res = {"status": p.returncode, "err": p.stderr, "timed_out": False}
                except subprocess.TimeoutExpired as e:
                    res = {"status": None, "err": e.stderr or b"", "timed_out": True}
                th.join(10)
                if res["status"] is not None and b"strace:" in res["err"] and res["status"] not in (0, 1, 101):
                    ctx.notes.append("strace injection unavailable here (%s): enumeration skipped" % res["err"][:80].decode("utf-8", "replace"))
                    return
                ran += 1
                ctx.case(("inject", fmt, path, k))
                try:
                    hit = open(trace, "rb").read().count(b"(INJECTED)")
                except OSError:
                    hit = 0
                ctx.hist("injected_write_failures", min(hit, 5))
                if hit:
                    ctx.distinct.add(("inject", fmt, path, k, "nt"))
                else:
                    break       # fewer than k writes in this run: larger k cannot fail either
                judge_write_fault(ctx, "inject", {"argv": [q], "write_call_failing_from": k, "errno": "EPIPE", "via": "strace -P fifo -e inject=write"},
                                  res, None)
    ctx.count("injected_runs", ran)


def part_d(ctx, scratch, quick):
    """a failing *reader*: with `archives`, an archive that cannot be opened (mode 000 for uid 65534), is empty,
    truncated or no zip at all adds no member rows and costs no other row, wherever it sits in its directory"""
    for t in range(8 if quick else 120):
        r = ctx.rng.fork()
        ents = healthy_tree(r, r.choice([6, 12, 20]))
        dirs = [""] + [e["path"] for e in ents if e["kind"] == "d"]
        bad = []
        for i in range(r.range(1, 3)):
            d = r.choice(dirs)
            # names that sort before and after their siblings: `readdir` order is arbitrary, entries follow on either side
            nm = (d + "/" if d else "") + r.choice(["000-bad%d", "mmm-bad%d", "zzz-bad%d"]) % i + r.choice([".zip", ".jar", ".ZIP"])
            how = r.choice(["unreadable", "empty", "garbage", "truncated"])
            if how == "unreadable":
                ents.append({"path": nm, "kind": "z", "members": fstree.gen_zip_members(r, 2), "mode": 0o000, "mtime": 1700000000})
            else:
                blob = {"empty": b"", "garbage": b"this is no archive", "truncated": b"PK\x03\x04" + b"\0" * 26}[how]
                ents.append({"path": nm, "kind": "raw", "content": blob, "mtime": 1700000000})
            bad.append((nm, how))
        d = r.choice(dirs)
        ents.append({"path": (d + "/" if d else "") + "good.zip", "kind": "z", "members": fstree.gen_zip_members(r, 3), "mtime": 1700000000})
        root = os.path.join(scratch, "d%d" % t)
        os.makedirs(root)
        os.chmod(root, 0o755)
        snap = corr.Snap(scratch, ents, root=root, as_nobody=True)
        for shape in range(3):
            trav = r.choice(["", " bfs", " dfs"])
            tail = ["", " order by path", ""][shape]
            sel = ["path", "path", "count(*)"][shape]
            qa = "select %s from . archives%s%s into list" % (sel, trav, tail)
            qp = "select %s from .%s%s into list" % (sel, trav, tail)
            ctx.case((t, "archives", qa))
            ctx.distinct.add((t, qa, "nt"))
            ctx.hist("bad_archive", "+".join(sorted(set(h for _, h in bad))))
            case = {"argv": [qa], "bad_archives": ["%s (%s)" % b for b in bad], "tree": [n["rel"] for n in snap.nodes][:50], "as": "uid 65534"}
            a = common.run_cli([qa], cwd=root, scratch=scratch, as_nobody=True)
            pl = common.run_cli([qp], cwd=root, scratch=scratch, as_nobody=True)
            if common.panicked(a) or a["timed_out"] or a["status"] not in (0, 1):
                ctx.oracle_fail("an archive that cannot be read: crash, hang or bad status", case,
                                detail={"status": a["status"], "err": a["err"][-300:].decode("utf-8", "replace")})
                continue
            if shape == 2:
                na, npl = int(a["out"].split(b"\0")[0] or 0), int(pl["out"].split(b"\0")[0] or 0)
                if na < npl:
                    ctx.oracle_fail("an archive that cannot be read costs other entries their place in the aggregate", case,
                                    detail={"count_with_archives": na, "count_without": npl})
                continue
            arows = [x for x in a["out"].split(b"\0")[:-1] if not x.startswith(b"[")]
            prows = pl["out"].split(b"\0")[:-1]
            if arows != prows:
                lost = [x.decode("utf-8", "replace") for x in prows if x not in arows][:5]
                ctx.oracle_fail("an archive that cannot be read costs other entries their rows", case,
                                detail={"rows_with_archives": len(arows), "rows_without": len(prows), "lost": lost, "status": a["status"],
                                        "stderr": a["err"][:300].decode("utf-8", "replace")})
        common.rm_tree(root)


def run(ctx):
    quick = ctx.tier == "quick"
    scratch = common.new_scratch()
    os.chmod(scratch, 0o755)
    try:
        # corpus: the witness of D41 (panic at the footer) must stay fixed
        part_a(ctx, scratch, quick)
        part_d(ctx, scratch, quick)
        root = part_b(ctx, scratch, quick)
        part_c(ctx, scratch, root, quick)
    finally:
        for dp, dn, fn in os.walk(scratch):
            for d in dn:
                try:
                    os.chmod(os.path.join(dp, d), 0o755)
                except OSError:
                    pass
        common.rm_tree(scratch)
