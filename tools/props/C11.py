"""C11: documented alternative spellings of a query denote the same query."""
import json
import os
import re

import common
import corr
import fstree
import gen

RULE = ("(a) every alias group of docs/usage.md (operators, arithmetic words, columns, functions, root options, formats), "
        "one substitution at a time, each alias also in upper/capitalised/mixed case, inside a template query: "
        "Parser::parse (in-process, JSON of the Query) must equal the canonical spelling's and the Lean model's; (b) "
        "generated valid queries x renderings: random letter case of every word, random aliases, curly brackets, "
        "leading `select` present/absent, select-list commas present/absent, explicit `asc`, `()` after argument-less "
        "functions, and shell-word splits (single argument, one word per argument, random groupings that keep a root "
        "path alone in its word): parsed Query identical to the canonical rendering's, model agrees, and (sampled) "
        "the rows returned by the binary are identical. distinct = (query, rendering); nontrivial = the rendering "
        "differs from the canonical text")


def doc_groups():
    """alias groups read back from the generated Lean doc tables"""
    s = open(os.path.join(common.LEAN, "Fsel", "Gen", "DocTables.lean"), encoding="utf-8").read()
    out = {}
    for m in re.finditer(r"def (\w+) : List \(List \(List Char\)\) := \[\n(.*?)\n\]\n", s, re.S):
        groups = []
        for line in m.group(2).split("\n"):
            items = re.findall(r"\[((?:(?:'[^']*'|'\\''|\(Char\.ofNat \d+\)),?)*)\]", line.strip().rstrip(",")[1:-1] if line.strip().startswith("[") else line)
            g = []
            for it in items:
                chars = re.findall(r"'\\''|'\\\\'|'([^'])'|\(Char\.ofNat (\d+)\)", it)
                txt = ""
                for a, b in chars:
                    txt += a if a else (chr(int(b)) if b else "'")
                g.append(txt)
            if g:
                groups.append(g)
        out[m.group(1)] = groups
    return out


def case_variants(r, w):
    vs = {w, w.upper(), w.capitalize(), "".join(c.upper() if i % 2 else c.lower() for i, c in enumerate(w))}
    return [v for v in vs]


def parse_json(ctx, who, argv):
    resp = who.ask("parse", *argv, timeout=10)
    if resp.startswith("ok "):
        return ("ok", json.loads(resp[3:]))
    if resp.startswith("err"):
        return ("err",)
    return (resp.split(" ")[0][:20],)


def same_parse(ctx, base_argv, var_argv, what, finding=None, must_parse=False):
    """implementation: variant parses like the canonical spelling; model agrees with the implementation"""
    ctx.case((what,) + tuple(var_argv))
    if var_argv != base_argv:
        ctx.distinct.add((what,) + tuple(var_argv) + ("nt",))
    b = parse_json(ctx, ctx.harness, base_argv)
    v = parse_json(ctx, ctx.harness, var_argv)
    case = {"canonical": base_argv, "variant": var_argv, "rendering": what, "level": "in-process Parser::parse"}
    if b[0] != "ok" and must_parse:
        # two spellings that are both rejected are not "the same query": where the canonical form is taken from the
        # documentation tables it has to parse
        ctx.oracle_fail("a documented form of a query is rejected by the parser", case, finding=finding, detail={"canonical": str(b)[:300]})
        return False
    if b != v:
        ctx.oracle_fail("an alternative spelling parses to a different query", case, finding=finding,
                        detail={"canonical": str(b)[:300], "variant": str(v)[:300]})
        return False
    if ctx.model_ok:
        m = parse_json(ctx, ctx.model, var_argv)
        if m != v:
            ctx.disagree("parseQuery (model) = Parser::parse (implementation)", {"argv": var_argv}, str(m)[:300], str(v)[:300])
    return True


FN_TEMPLATES = {1: "select %s(name) from .", 0: "select %s() from .", 2: "select %s(name, 2) from .", 3: "select %s(name, a, b) from ."}
FN_ARITY = {"substring": 2, "replace": 3, "concat": 2, "concat_ws": 2, "coalesce": 2, "power": 2, "log": 2, "least": 2, "greatest": 2,
            "current_date": 0, "current_uid": 0, "current_user": 0, "current_gid": 0, "current_group": 0, "random": 0, "format_size": 2,
            "has_xattr": 1, "xattr": 1, "has_capabilities": 0, "has_capability": 1, "contains": 1, "count": 1}


def part_tables(ctx, quick):
    g = doc_groups()
    r = ctx.rng
    for group in g.get("docOpGroups", []):
        canon = group[0]
        rhs = "'%a%'" if canon in ("like", "notlike") else ("'^a.*'" if canon in ("=~", "!=~") else "10")
        lhs = "name" if canon in ("like", "notlike", "=~", "!=~", "===", "!==") else "size"
        if canon == "between":
            base = ["select name from . where size between 1 and 10"]
            for v in case_variants(r, canon):
                same_parse(ctx, base, ["select name from . where size %s 1 and 10" % v], "operator-case:" + canon)
            continue
        base = ["select name from . where %s %s %s" % (lhs, canon, rhs)]
        for alias in group:
            for v in case_variants(r, alias):
                same_parse(ctx, base, ["select name from . where %s %s %s" % (lhs, v, rhs)], "operator:" + canon, must_parse=True)
        # `not like` = notlike, documented for LIKE
    same_parse(ctx, ["select name from . where name notlike '%a%'"], ["select name from . where name not like '%a%'"], "operator:not like")
    same_parse(ctx, ["select name from . where name notlike '%a%'"], ["select name from . where name NOT LIKE '%a%'"], "operator:not like")
    for group in g.get("docArithGroups", []):
        base = ["select size %s 2 from ." % group[0]]
        for alias in group:
            for v in case_variants(r, alias):
                same_parse(ctx, base, ["select size %s 2 from ." % v], "arith:" + group[0])
    for group in g.get("docFieldGroups", []):
        base = ["select %s from . where %s = 1 order by %s" % (group[0], group[0], group[0])]
        for alias in group:
            for v in case_variants(r, alias):
                same_parse(ctx, base, ["select %s from . where %s = 1 order by %s" % (v, v, v)], "column:" + group[0], must_parse=True)
    # a column name keeps meaning the column when an arithmetic sign follows it without a blank, in any letter case
    for group in g.get("docFieldGroups", []):
        if group[0] not in ("size", "hardlinks", "uid", "gid", "inode", "blocks"):
            continue
        tmpl = "select %s*2, %s+1, (%s%%3) from . where %s/2 gte 3"
        base = [tmpl % ((group[0],) * 4)]
        for alias in group:
            for v in case_variants(r, alias):
                same_parse(ctx, base, [tmpl % ((v,) * 4)], "column-before-sign:" + group[0])
    # ... also when the name has an underscore, which some aliases of a column have and others have not (bitrate / mp3_bitrate)
    for group in g.get("docFieldGroups", []):
        if not any("_" in a for a in group):
            continue
        tmpl = "select %s+1, %s-2 from . where %s+1 gte 3 order by %s+1"
        base = [tmpl % ((group[0],) * 4)]
        for alias in group:
            for v in case_variants(r, alias):
                same_parse(ctx, base, [tmpl % ((v,) * 4)], "underscore-column-before-sign:" + group[0], must_parse=True)
    # several GROUP BY / ORDER BY terms without a WHERE clause, the query split into shell words at every blank
    for q in ["select name, is_dir, length(name) from . order by is_dir, length(name) desc",
              "select name from . order by size desc, lower(name), ext",
              "select ext, lower(name), count(*) from . group by ext, lower(name)",
              "select ext, is_dir, count(*) from . depth 2 group by ext, is_dir order by ext, is_dir desc limit 5",
              "select name from /tmp depth 1, /var order by length(name), name into lines"]:
        same_parse(ctx, [q], q.split(" "), "split-several-terms-without-where", must_parse=True)
        same_parse(ctx, [q], [q.replace(", ", " , ")], "split-several-terms-without-where", must_parse=True)
        same_parse(ctx, [q], q.replace(", ", " , ").split(" "), "split-several-terms-without-where", must_parse=True)
    # the root option rx / regexp in every position of the option list, also directly after the path
    for tmpl in ["select name from '/t/[ac]' %s", "select name from '/t/[ac]' %s depth 2", "select name from '/t/[ac]' depth 2 %s",
                 "select name from /a %s, /b dfs %s where size > 1", "select name from /a sym %s arc order by name"]:
        base = [tmpl.replace("%s", "regexp")]
        for alias in ("regexp", "rx"):
            for v in case_variants(r, alias):
                same_parse(ctx, base, [tmpl.replace("%s", v)], "root-option-position:regexp", must_parse=True)
    # a boolean function without brackets, in every place of a condition
    for fn in ("has_capabilities", "has_caps"):
        for tmpl in ["select name from . where %s or size gt 4", "select name from . where size gt 4 and %s",
                     "select name from . where not %s and size > 1", "select name from . where (%s) or name = 'x'",
                     "select name from . where %s"]:
            same_parse(ctx, [tmpl % "has_capabilities()"], [tmpl % fn], "boolean-function-without-brackets", must_parse=True)
            same_parse(ctx, [tmpl % "has_capabilities()"], [tmpl % fn.upper()], "boolean-function-without-brackets", must_parse=True)
    for group in g.get("docFunctionGroups", []):
        ar = FN_ARITY.get(group[0], 1)
        base = [FN_TEMPLATES[ar] % group[0]]
        for alias in group:
            for v in case_variants(r, alias):
                same_parse(ctx, base, [FN_TEMPLATES[ar] % v], "function:" + group[0], must_parse=True)
        if ar == 0 and group[0] != "has_capabilities":
            same_parse(ctx, base, ["select %s from ." % group[0]], "nullary-without-brackets:" + group[0])
            same_parse(ctx, ["select name, %s() from ." % group[0]], ["select name, %s from ." % group[0].upper()], "nullary-without-brackets:" + group[0])
    for group in g.get("docRootOptionGroups", []):
        arg = " 2" if group[0] in ("mindepth", "maxdepth") else ""
        base = ["select name from . %s%s where size > 1" % (group[0], arg)]
        for alias in group:
            for v in case_variants(r, alias):
                same_parse(ctx, base, ["select name from . %s%s where size > 1" % (v, arg)], "root-option:" + group[0], must_parse=True)
    for group in g.get("docFormatGroups", []):
        base = ["select name from . into %s" % group[0]]
        for v in case_variants(r, group[0]):
            same_parse(ctx, base, ["select name from . into %s" % v], "format:" + group[0], must_parse=True)
    # round vs curly brackets, in every position a bracket can take (incl. operands that start with * / %)
    for q in ["select count(*) from .", "select name, count(*) from . group by name", "select lower(name) from .",
              "select (size + 1) * 2 from .", "select name from . where (size > 1) and (size < 100)",
              "select name from . where not (size > 1 or size < 0)", "select name from . where path = (/tmp/x)",
              "select name from . where name like (%.rs)", "select name from . where size > (2 * (1 + 3))",
              "select substr(upper(name), 1, 2) from .", "select min(size), max(size) from . where length(name) > (3)",
              "select name from . order by (size * 2) desc", "select concat(name, (size)) from ."]:
        same_parse(ctx, [q], [q.replace("(", "{").replace(")", "}")], "brackets")
        spaced = " ".join(q.replace("(", " ( ").replace(")", " ) ").split())
        same_parse(ctx, [spaced], [spaced.replace("(", "{").replace(")", "}")], "brackets-spaced")
    # every keyword in every clause position it can take: after a WHERE, directly after a root with options,
    # after several roots, after a root without options
    for base_q in ["select name, size from . where size > 1 and not name = 'x' or size < 0 group by name order by size desc, name asc limit 3 into csv",
                   "select name, count(*) from . depth 2 dfs group by name",
                   "select ext, count(*) from /tmp maxdepth 1 sym arc group by ext order by ext desc",
                   "select name from . mindepth 1 bfs order by name asc limit 2",
                   "select name from . depth 3 gitignore limit 2 into json",
                   "select name from /tmp depth 1, /var mindepth 2 dfs into lines",
                   "select name from a depth 1, b where not size > 1 or name = 'x' and size < 5",
                   "select name, min(size) from . group by name limit 4"]:
        for kw in ("select", "from", "where", "and", "or", "not", "order", "by", "group", "limit", "into", "asc", "desc"):
            if not re.search(r"\b%s\b" % kw, base_q):
                continue
            for v in case_variants(r, kw):
                var = re.sub(r"\b%s\b" % kw, v, base_q)
                same_parse(ctx, [base_q], [var], "keyword-case:" + kw)


def regroup(r, words, root_idx):
    """random grouping of words into shell words; a root path stays alone in its shell word (D01)"""
    out = []
    cur = []
    for i, w in enumerate(words):
        alone = i in root_idx
        if alone:
            if cur:
                out.append(" ".join(cur))
                cur = []
            out.append(w)
            continue
        cur.append(w)
        if r.chance(1, 2):
            out.append(" ".join(cur))
            cur = []
    if cur:
        out.append(" ".join(cur))
    return out


def part_generated(ctx, scratch, quick):
    r0 = ctx.rng
    ents = fstree.gen_tree(r0, max_entries=14, kinds="fdl")
    snap = corr.Snap(scratch, ents, subdir="g")
    dirs = [e["path"] for e in ents if e["kind"] == "d" and all(c.isalnum() or c in "._/" for c in e["path"])]
    n = 60 if quick else 600
    for qi in range(n):
        r = ctx.rng.fork()
        gq = gen.QGen(r, roots=["."] + dirs[:3])
        q = gq.query(want_agg=r.chance(1, 5))
        canon_words = gen.Render(None, select_kw=True).words(q)
        base = [gen.join_words(canon_words)]
        bp = parse_json(ctx, ctx.harness, base)
        if bp[0] != "ok":
            ctx.count("generated_query_rejected")
            continue
        variants = []
        variants.append(("case", [gen.Render(r, case=True, select_kw=True).text(q)]))
        variants.append(("aliases", [gen.Render(r, aliases=True, select_kw=True).text(q)]))
        variants.append(("curly", [gen.Render(r, curly=True, select_kw=True).text(q)]))
        variants.append(("no-select", [gen.Render(None, select_kw=False).text(q)]))
        variants.append(("all", [gen.Render(r, case=True, aliases=True, curly=r.chance(1, 2), select_kw=r.chance(1, 2)).text(q)]))
        # commas in the select list are optional when every column is a plain word
        if all(e[0] == "field" for e in q["select"]) and len(q["select"]) > 1:
            variants.append(("no-commas", [gen.Render(None, select_kw=True, commas=False).text(q)]))
        # explicit asc
        if q["order"] and any(d is None or d == "" for _, d in q["order"]):
            q2 = dict(q)
            q2["order"] = [(k, d if d else "asc") for k, d in q["order"]]
            variants.append(("explicit-asc", [gen.Render(None, select_kw=True).text(q2)]))
        # shell-word splits: one word per argument (commas detached from root paths), and random groupings
        words = []
        root_idx = set()
        in_roots = False
        for w in canon_words:
            lw = w.lower()
            if lw == "from":
                in_roots = True
            elif lw in ("where", "group", "order", "limit", "into"):
                in_roots = False
            words.append(w)
        # positions the lexer reads "to the end of the shell word" (D01): the word after `from`, and the word after
        # every comma of the root list (the commas of GROUP BY and ORDER BY lists announce no path: D81 fix)
        in_root_list = False
        expect_path = False
        for i, w in enumerate(words):
            lw = w.lower()
            if lw == "from":
                in_root_list, expect_path = True, True
                continue
            if lw in ("where", "group", "order", "limit", "into"):
                in_root_list = False
            if in_root_list and w == ",":
                expect_path = True
                continue
            if expect_path:
                root_idx.add(i)
                expect_path = False
        variants.append(("split-all", list(words)))
        variants.append(("split-random", regroup(r, words, root_idx)))
        for what, argv in variants:
            ok = same_parse(ctx, base, argv, what)
            ctx.hist("rendering", what)
            if ok and (qi % 5 == 0) and what in ("all", "split-all", "aliases"):
                b = common.run_cli(base, cwd=snap.root, scratch=scratch)
                v = common.run_cli(argv, cwd=snap.root, scratch=scratch)
                # (row order is unspecified for grouped queries; ordered queries may permute ties)
                if (b["status"], sorted(b["out"].split(b"\n"))) != (v["status"], sorted(v["out"].split(b"\n"))) and "order" not in base[0].lower():
                    ctx.oracle_fail("an alternative spelling returns different rows", {"canonical": base, "variant": argv, "rendering": what},
                                    detail={"status": [b["status"], v["status"]], "rows": [b["out"].count(b"\n"), v["out"].count(b"\n")]})
        if qi < 3:
            ctx.sample({"canonical": base, "renderings": [w for w, _ in variants]})
    common.rm_tree(snap.root)


def run(ctx):
    quick = ctx.tier == "quick"
    if not ctx.harness_ok:
        ctx.notes.append("aux harness unavailable: the in-process comparison of parsed queries is skipped")
        return
    # D01 (known finding): a root path extends to the end of its shell word
    base = ["name from ., d depth 1"]
    var = ["name", "from", ".,", "d", "depth", "1"]
    ctx.case(("d01",) + tuple(var))
    if parse_json(ctx, ctx.harness, base) != parse_json(ctx, ctx.harness, var):
        ctx.oracle_fail("splitting the query at white space changes its meaning (root path word)", {"canonical": base, "variant": var}, finding="D01")
    part_tables(ctx, quick)
    scratch = common.new_scratch()
    try:
        part_generated(ctx, scratch, quick)
    finally:
        common.rm_tree(scratch)
