"""C16: every documented scalar function computes its documented value for any argument."""
import base64
import datetime
import math
import os

import common
import corr
import fstree

RULE = ("each documented scalar function x argument strings (empty, ASCII, Latin-1, Cyrillic, CJK, combining marks, "
        "white-space runs incl. NBSP/EM SPACE, numeric strings: negative, fractional, huge, exponent, inf/NaN; positions "
        "and lengths for SUBSTR from -len-3..len+3 incl. 0 and non-numeric; empty/overlapping/absent needles for "
        "REPLACE; canonical and malformed base64; dates at month/year ends, leap days, every day of 1900..2100 in the "
        "thorough tier) — (a) in-process: model scalarFn vs function::get_value (value, type, status-2 exits, no panic); "
        "(b) oracle: an independent Python implementation of the documented meaning (str methods, base64, int "
        "formatting, math, datetime); (c) composition: nested calls up to depth 3 on literals and on name/size/"
        "modified of generated entries through the CLI, against the model and against the Python composition. "
        "distinct = (function, arguments); nontrivial = the argument exercises the function (non-empty, in range)")

TEXTS = ["", "a", "Hello World", "  padded \t", "\tx\n", "ÄÖÜ straße", "naïve résumé", "Привет Мир", "日本語テキスト", "élève",
         "a  b   c", " x ", "MiXeD cAsE wORDS", "x", "aaa", "abcabcabc", "ÿµß", "123", "-5", "3.75", "1e3", "  42  ",
         "héllo", "tab\tsep", "straße münchen", "ЁЖЗ ёжз", "a,b", "'q'", "50%", "under_score", "UPPER", "lower"]
NUMS = ["0", "1", "-1", "2", "7", "10", "255", "256", "-255", "1024", "4294967296", "9223372036854775807", "-9223372036854775808",
        "9223372036854775808", "3.5", "-3.5", "0.1", "1e3", "1e400", "-0", "inf", "-inf", "NaN", "abc", "", " 7", "7 ", "+7", "0x10", "१२"]
DATES = ["2024-02-29", "2023-02-28", "2023-12-31", "2024-01-01", "1999-12-31 23:59:59", "2000-02-29 00:00:00", "1970-01-01", "2038-01-19 03:14:08",
         "2100-02-28", "1900-03-01", "2024-04-31", "2023-02-29", "2024-13-01", "not a date", "", "2024-06-15 12:30", "2021-07-04 7:05:09"]


def py_initcap(s):
    return " ".join(w[:1].upper() + w[1:].lower() for w in s.split())


def py_substr(s, pos, ln):
    if pos >= 1:
        out = s[pos - 1:]
    elif -len(s) <= pos <= -1:
        out = s[len(s) + pos:]
    else:
        return None
    if ln is not None and ln > 0:
        out = out[:ln]
    return out


def py_i64(s):
    try:
        if s != s.strip() or not s or s[0] == "+" and len(s) == 1:
            return None
        v = int(s, 10)
        if not all(c in "+-0123456789" for c in s):
            return None
        if -(1 << 63) <= v < (1 << 63):
            return v
    except ValueError:
        pass
    return None


def py_f64(s):
    if s != s.strip() or not s:
        return None
    t = s.lower()
    if t in ("inf", "+inf", "-inf", "infinity", "+infinity", "-infinity", "nan", "+nan", "-nan"):
        return float(t.replace("infinity", "inf"))
    if not all(c in "+-0123456789.e" for c in t):
        return None
    try:
        return float(s)
    except ValueError:
        return None


def expected(fn, arg, args):
    """documented value as text, or None when this oracle has no opinion"""
    if fn == "lower":
        return arg.lower()
    if fn == "upper":
        return arg.upper()
    if fn == "initcap":
        return py_initcap(arg)
    if fn == "length":
        return str(len(arg))
    if fn == "trim":
        return arg.strip()
    if fn == "ltrim":
        return arg.lstrip()
    if fn == "rtrim":
        return arg.rstrip()
    if fn == "concat":
        return arg + "".join(args)
    if fn == "concat_ws":
        return arg.join(args)
    if fn == "coalesce":
        for x in [arg] + args:
            if x != "":
                return x
        return ""
    if fn == "to_base64":
        return base64.b64encode(arg.encode("utf-8")).decode()
    if fn == "replace" and len(args) >= 2:
        return arg.replace(args[0], args[1])
    if fn == "substr" and args:
        try:
            pos = int(args[0])
            ln = int(args[1]) if len(args) > 1 else None
        except ValueError:
            return None
        if ln is not None and ln < 0:
            return None
        return py_substr(arg, pos, ln)
    if fn in ("bin", "oct", "hex"):
        v = py_i64(arg)
        if v is None:
            return ""
        return format(v & ((1 << 64) - 1) if v < 0 else v, {"bin": "b", "oct": "o", "hex": "x"}[fn])
    return None


def num_expected(fn, arg, args):
    v = py_f64(arg)
    if v is None:
        return "empty"
    try:
        if fn == "abs":
            return abs(v)
        if fn == "sqrt":
            return math.sqrt(v) if v >= 0 else float("nan")
        if fn == "ln":
            return math.log(v) if v > 0 else (float("-inf") if v == 0 else float("nan"))
        if fn == "exp":
            return math.exp(v)
        if fn == "least" or fn == "greatest":
            acc = v
            for a in args:
                w = py_f64(a)
                if w is None or math.isnan(w):
                    continue
                if math.isnan(acc):
                    acc = w
                else:
                    acc = min(acc, w) if fn == "least" else max(acc, w)
            return acc
        if fn == "power":
            p = py_f64(args[0]) if args else 0.0
            if p is None:
                return "empty"
            return math.pow(v, p)
    except (OverflowError, ValueError):
        return None
    return None


def canon(resp):
    """harness / model answer -> (kind, type, text)"""
    if resp.startswith("ok "):
        _, ty, hx = resp.split(" ")
        return ("ok", ty, common.unhx(hx).decode("utf-8", "replace"), True)
    if resp.startswith("ok~ "):
        _, ty, hx = resp.split(" ")
        return ("ok", ty, common.unhx(hx).decode("utf-8", "replace"), False)
    if resp == "exit2" or resp == "died:2":
        return ("exit2",)
    if resp == "unsupported":
        return ("unsupported",)
    parts = resp.split(" ")
    if len(parts) == 2 and parts[0] in ("String", "Int", "Float", "Bool", "DateTime"):
        return ("ok", parts[0], common.unhx(parts[1]).decode("utf-8", "replace"), True)
    return ("bad", resp[:40])


def close_num(a, b):
    if a == b or {a, b} == {"0", "-0"}:
        return True         # the model computes in ℚ: no signed zero
    try:
        x, y = float(a), float(b)
    except ValueError:
        return a == b
    if math.isnan(x) and math.isnan(y):
        return True
    if x == y:
        return True
    return abs(x - y) <= 1e-12 * max(1.0, abs(x), abs(y))


def one(ctx, fn, arg, args, nontrivial=True):
    ctx.case((fn, arg) + tuple(args))
    if nontrivial:
        ctx.distinct.add((fn, arg) + tuple(args) + ("nt",))
    ctx.hist("function", fn)
    h = canon(ctx.harness.ask("get_value", fn, arg, *args, timeout=10))
    case = {"function": fn, "arg": arg, "args": args, "level": "in-process function::get_value"}
    if h[0] == "bad":
        ctx.oracle_fail("scalar function crashed or hung (%s)" % h[1], case)
        return
    ctx.hist("impl_outcome", h[0])
    if ctx.model_ok:
        m = canon(ctx.model.ask("fn\tget_value", fn, arg, *args))
        ctx.hist("model_outcome", m[0])
        if m[0] == "ok" and h[0] == "ok":
            same = (m[1].split(".")[-1].lower() == h[1].split(".")[-1].lower()) and (m[2] == h[2] or {m[2], h[2]} == {"0", "-0"} or (not m[3] and (m[2] == "?" or close_num(m[2], h[2]))))
            if not same:
                ctx.disagree("scalarFn (model) = function::get_value (implementation)", case, m[:3], h[:3])
        elif m[0] != "unsupported" and m[0] != h[0]:
            ctx.disagree("scalarFn (model) = function::get_value (implementation)", case, m[:3], h[:3])
    # oracle
    if h[0] == "ok":
        want = expected(fn, arg, args)
        if want is not None and h[2] != want:
            ctx.oracle_fail("scalar function value differs from its documented meaning", case, detail={"got": h[2], "want": want})
        if fn in ("abs", "sqrt", "ln", "exp", "least", "greatest", "power"):
            w = num_expected(fn, arg, args)
            if w == "empty":
                if h[2] != "":
                    ctx.oracle_fail("a non-numeric argument must give an empty value", case, detail={"got": h[2]})
            elif w is not None and not close_num(h[2], repr(w)):
                ctx.oracle_fail("numeric function value differs from the mathematical value", case, detail={"got": h[2], "want": repr(w)})
        if fn == "from_base64":
            try:
                raw = base64.b64decode(arg, validate=True)
                canonical = base64.b64encode(raw).decode() == arg
                txt = raw.decode("utf-8")
            except Exception:
                canonical = False
                txt = None
            if canonical and txt is not None and h[2] != txt:
                ctx.oracle_fail("FROM_BASE64 is not the inverse of TO_BASE64", case, detail={"got": h[2], "want": txt})


def part_inprocess(ctx, quick):
    r = ctx.rng
    if ctx.model_ok:
        ctx.model.ask_raw("cfg\ttoday=%d" % fstree.model_today("UTC"))
    for fn in ("lower", "upper", "initcap", "length", "trim", "ltrim", "rtrim", "to_base64"):
        for s in TEXTS:
            one(ctx, fn, s, [], nontrivial=s != "")
    for s in TEXTS:
        enc = base64.b64encode(s.encode()).decode()
        one(ctx, "from_base64", enc, [])
    for s in ["!!!!", "a", "ab=", "Zm9v\n", "Zm9", "====", "Zm9vYg", "Zm9vYmE=", "Zh=="]:
        one(ctx, "from_base64", s, [], nontrivial=False)
    for s in TEXTS:
        n = len(s)
        poss = list(range(-n - 3, n + 4)) if not quick else sorted(set([-n - 3, -n - 1, -n, -n + 1, -2, -1, 0, 1, 2, n - 1, n, n + 1, n + 3]))
        for p in poss:
            one(ctx, "substr", s, [str(p)], nontrivial=(p != 0 and abs(p) <= n))
            for ln in ([0, 1, 2, n, n + 5] if not quick else [r.choice([0, 1, 2, n + 5])]):
                one(ctx, "substr", s, [str(p), str(ln)], nontrivial=(p != 0 and abs(p) <= n))
        for bad in (["x"], ["1", "x"], ["1", "-1"], ["99999999999"], ["2147483648"], ["-2147483649"], ["1", "18446744073709551616"]):
            one(ctx, "substr", s, bad, nontrivial=False)
    needles = [("a", "b"), ("", "-"), ("aa", "a"), ("abc", ""), ("é", "e"), ("  ", " "), ("日本", "JP"), ("zzz", "y"), ("a", "aa"), ("ab", "ba")]
    for s in TEXTS:
        for a, b in (needles if not quick else r.sample(needles, 4)):
            one(ctx, "replace", s, [a, b], nontrivial=(a in s))
    one(ctx, "replace", "abc", ["a"], nontrivial=False)
    one(ctx, "replace", "abc", [], nontrivial=False)
    for _ in range(60 if quick else 600):
        k = r.range(0, 4)
        args = [r.choice(TEXTS) for _ in range(k)]
        s = r.choice(TEXTS)
        one(ctx, r.choice(["concat", "concat_ws", "coalesce"]), s, args)
    # CONCAT_WS / CONCAT with empty values among the joined ones: every value counts, also an empty one (`a--b`, `/x`, `a-`)
    for _ in range(30 if quick else 300):
        vals = [r.choice(["", "", "a", "b c", " ", "é"]) for _ in range(r.range(2, 4))]
        ctx.count("concat_with_empty_values")
        one(ctx, r.choice(["concat_ws", "concat_ws", "concat"]), r.choice(["-", "/", "", ", ", "|"]), vals)
    # COALESCE: "first non-empty" — a value made of blanks only is not empty; empty values before and after it
    blanks = ["", " ", "  ", "\t", " \n", "x", "", " a "]
    for _ in range(40 if quick else 400):
        vals = [r.choice(blanks) for _ in range(r.range(1, 4))]
        one(ctx, "coalesce", vals[0], vals[1:], nontrivial=any(v.strip() == "" and v != "" for v in vals))
    for fn in ("bin", "hex", "oct", "abs", "sqrt", "ln", "exp"):
        for s in NUMS:
            one(ctx, fn, s, [], nontrivial=(py_f64(s) is not None))
    for fn in ("least", "greatest", "power", "log"):
        for s in NUMS:
            for _ in range(2 if quick else 8):
                args = [r.choice(NUMS) for _ in range(r.range(0, 3))]
                one(ctx, fn, s, args, nontrivial=(py_f64(s) is not None))
    for s in NUMS + ["59", "60", "3600", "86399", "86400", "90061", "31536000", "18446744073709551615"]:
        one(ctx, "format_time", s, [], nontrivial=s.isdigit())
    # dates
    dates = list(DATES)
    d0 = datetime.date(1900, 1, 1)
    ndays = (datetime.date(2100, 12, 31) - d0).days + 1
    idx = range(ndays) if not quick else sorted(set([r.below(ndays) for _ in range(300)] + list(range(36500, 36530)) + list(range(45700, 45720))))
    for i in idx:
        dates.append((d0 + datetime.timedelta(days=i)).isoformat())
    for s in dates:
        for fn in ("year", "month", "day", "dow"):
            ctx.case((fn, s))
            ctx.hist("function", fn)
            h = canon(ctx.harness.ask("get_value", fn, s, timeout=10))
            case = {"function": fn, "arg": s, "level": "in-process function::get_value"}
            if h[0] == "bad":
                ctx.oracle_fail("date function crashed (%s)" % h[1], case)
                continue
            if ctx.model_ok:
                m = canon(ctx.model.ask("fn\tget_value", fn, s))
                if m[0] == "ok" and h[0] == "ok" and (m[2] != h[2]):
                    ctx.disagree("scalarFn (model) = function::get_value (implementation)", case, m[:3], h[:3])
                elif m[0] not in ("unsupported",) and m[0] != h[0]:
                    ctx.disagree("scalarFn (model) = function::get_value (implementation)", case, m[:3], h[:3])
            try:
                d = datetime.date.fromisoformat(s[:10]) if len(s) >= 10 and s[4] == "-" else None
            except ValueError:
                d = None
            if d is not None and h[0] == "ok" and (len(s) == 10 or s[10] == " "):
                ctx.distinct.add((fn, s, "nt"))
                want = {"year": d.year, "month": d.month, "day": d.day, "dow": d.isoweekday() % 7 + 1}[fn]
                if h[2] != str(want):
                    ctx.oracle_fail("date part differs from the calendar", case, detail={"got": h[2], "want": str(want)})
    # wrong kinds: every function on ill-typed / out-of-range arguments
    allf = ["lower", "upper", "initcap", "length", "to_base64", "from_base64", "concat", "concat_ws", "substr", "replace", "trim", "ltrim", "rtrim",
            "bin", "hex", "oct", "abs", "power", "sqrt", "log", "ln", "exp", "least", "greatest", "format_size", "format_time", "year", "month",
            "day", "dow", "coalesce", "contains_japanese", "contains_kana"]
    bad = ["", "x", "-1", "1.5", "99999999999999999999", "-2147483648", "2147483648", "'%'", "%.99999999999", "%.3 q", "2024-13-45", "٣", "NaN", "inf",
           "1e400", "\u0000", "퟿", "-9223372036854775808"]
    for fn in allf:
        for _ in range(6 if quick else 40):
            k = r.range(0, 3)
            one(ctx, fn, r.choice(bad), [r.choice(bad) for _ in range(k)], nontrivial=False)


PY = {"lower": lambda s: s.lower(), "upper": lambda s: s.upper(), "length": lambda s: str(len(s)), "trim": lambda s: s.strip(),
      "initcap": py_initcap, "to_base64": lambda s: base64.b64encode(s.encode()).decode()}


def part_composition(ctx, scratch, quick):
    r = ctx.rng
    for t in range(3 if quick else 12):
        ents = fstree.gen_tree(r, max_entries=8, kinds="fd")
        for i, nm in enumerate(["Hello World.TXT", "  spaced name ", "ÄÖÜ straße.rs", "日本語.md"]):
            ents.append({"path": nm, "kind": "f", "size": 10 * i + 3, "mode": 0o644, "mtime": 1709164800 + 86400 * 31 * i, "lines": 1})
        snap = corr.Snap(scratch, ents, subdir="c%d" % t)
        for _ in range(10 if quick else 40):
            chain = [r.choice(list(PY)) for _ in range(r.range(2, 3))]
            if "length" in chain[1:]:
                chain = [c for c in chain if c != "length"] + ["length"]
                chain.reverse()
            # 'Name' / 'Size': literals that read like a column of this very select list — still literals
            base = r.choice(["name", "'Mixed Case lit'", "'  x y  '", "'ÄÖÜ straße'", "'Name'", "'Size'"])
            expr = base
            for fn in reversed(chain):
                expr = "%s(%s)" % (fn, expr)
            extra = r.choice(["substr(upper(name), 2, 3)", "length(replace(name, 'a', 'bb'))", "year(modified)", "month(modified)", "concat(lower(name), '-', size)",
                              "hex(size)", "abs(size - 100)", "coalesce(trim(''), upper(name))", "day(modified)", "length(to_base64(name))"])
            if base in ("'Name'", "'Size'"):
                # (no second column built from the same words: that would be the known cache-key collision D62, judged by C15)
                extra = r.choice(["year(modified)", "month(modified)", "day(modified)"])
            q = "select name, size, %s, %s from . into list" % (expr, extra)
            ctx.case((t, q))
            ctx.distinct.add((t, q, "nt"))
            m, impl = corr.run_case(ctx, snap, [q], fmt="list", ncols=4)
            if impl["status"] != 0 or common.panicked(impl):
                ctx.oracle_fail("nested scalar functions rejected or crashed", {"argv": [q]}, detail={"status": impl["status"], "err": impl["err"][:300].decode("utf-8", "replace")})
                continue
            vals = impl["out"].split(b"\0")[:-1]
            rows = [vals[i:i + 4] for i in range(0, len(vals), 4)]
            for row in rows:
                nm = row[0].decode("utf-8")
                x = nm if base == "name" else base[1:-1]
                for fn in reversed(chain):
                    x = PY[fn](x)
                if row[2].decode("utf-8") != x:
                    ctx.oracle_fail("F(G(x)) is not F applied to the value of G(x)", {"argv": [q], "entry": nm},
                                    detail={"expression": expr, "got": row[2].decode("utf-8", "replace"), "want": x})
                    break
        common.rm_tree(snap.root)


def run(ctx):
    quick = ctx.tier == "quick"
    if ctx.harness_ok:
        part_inprocess(ctx, quick)
    else:
        ctx.notes.append("in-process sweep skipped: aux harness unavailable")
    scratch = common.new_scratch()
    try:
        part_composition(ctx, scratch, quick)
    finally:
        common.rm_tree(scratch)
