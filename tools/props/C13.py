"""C13: date literals denote intervals; comparisons partition time consistently."""
import datetime
import time

import common
import corr
import fstree
import oracle

RULE = ("files whose modification times sit on the grid a-1, a, a+1, b-1, b, b+1 around the interval [a, b] of each "
        "literal, at month/year/leap-day boundaries x literals at the four precisions, both `-` and `:` date "
        "separators, quoted and unquoted x the eight comparison operators x three fixed-offset zones and three zones with daylight-saving rules (POSIX TZ strings; mtimes in both periods; the 25-hour and the 23-hour day of each zone); relative "
        "literals (today, yesterday, +N/-N) with mtimes set relative to the real clock; (a) CLI rows and the printed "
        "`modified` column vs the Lean model, (b) oracle: Python datetime interval arithmetic. distinct = "
        "(zone, literal, operator); nontrivial = the operator separates the grid")

DATES = [(2024, 2, 29), (2023, 12, 31), (1969, 12, 31), (2024, 1, 1), (2023, 2, 28), (1968, 2, 29), (2000, 2, 29), (2024, 3, 31), (2021, 6, 15), (1970, 1, 1)]   # also before the epoch: file times are negative there, and floor, not truncation, gives the second
OPS = ["=", "!=", "<", ">", "<=", ">=", "===", "!==", "eq", "gt", "lte"]
# the days on which the clocks change in the daylight-saving zones (a 25-hour and a 23-hour day each): a day
# literal still denotes local 00:00:00 .. 23:59:59 of that calendar day
DST_DAYS = {"CET-1CEST,M3.5.0,M10.5.0/3": [(2023, 10, 29), (2024, 3, 31)],
            "EST5EDT,M3.2.0,M11.1.0": [(2023, 11, 5), (2024, 3, 10)],
            "<+1030>-10:30<+11>-11,M10.1.0,M4.1.0": [(2024, 4, 7), (2023, 10, 1)]}


def lit_variants(y, mo, d, r):
    """(text, precision) for one date"""
    h, mi, s = r.below(24), r.below(60), r.below(60)
    sep = r.choice(["-", ":"])
    day = "%04d%s%02d%s%02d" % (y, sep, mo, sep, d)
    out = [(day, "day"), (day + " %02d" % h, "hour"), (day + " %02d:%02d" % (h, mi), "minute"),
           (day + " %02d:%02d:%02d" % (h, mi, s), "second")]
    # zero fields are written fields, not missing ones
    z = r.below(4)
    out.append([(day + " %02d:%02d:00" % (h, mi), "second"), (day + " %02d:00:00" % h, "second"),
                (day + " 00:00:00", "second"), (day + " %02d:00" % h, "minute")][z])
    out.append((day + " 00", "hour"))
    # one-digit month and day, written without the leading zero (in any combination)
    sep2 = r.choice(["-", ":"])
    mo_s = r.choice(["%d" % mo, "%02d" % mo])
    d_s = "%d" % d if mo_s != "%d" % mo or r.chance(1, 2) else "%02d" % d
    if mo < 10 or d < 10:
        short = "%04d%s%s%s%s" % (y, sep2, mo_s, sep2, d_s)
        if short != day:
            out.append((short, "day"))
    return out


def run(ctx):
    quick = ctx.tier == "quick"
    scratch = common.new_scratch()
    try:
        zones = list(fstree.TZ_OFFSETS) + list(fstree.DST_ZONES)
        rounds = 12 if quick else 84
        for rd in range(rounds):
            r = ctx.rng.fork()
            tz = zones[rd % len(zones)]
            y, mo, d = DATES[(rd + rd // len(zones)) % len(DATES)]
            if tz in DST_DAYS and (rd // len(zones)) % 3 != 2:
                y, mo, d = DST_DAYS[tz][(rd // len(zones)) % 3]
                ctx.count("clock_change_days")
            lits = lit_variants(y, mo, d, r)
            # grid of local times around every interval edge -> mtimes (UTC seconds)
            ents = []
            times = set()
            for text, prec in lits:
                a, b = oracle.date_interval(text, tz)
                for t in (a - 1, a, a + 1, b - 1, b, b + 1, a - 86400, b + 86400):
                    times.add(t)
            # the instants whose local reading is t (none in a spring-forward gap, two in a fall-back hour)
            inst = sorted({m for t in times for m in fstree.instants_of_local(tz, t)})
            for i, m in enumerate(inst):
                ents.append({"path": "f%03d" % i, "kind": "f", "size": 1, "mode": 0o644, "mtime": m,
                             "mtime_ns": [0, 500000000, 999999999, 1][i % 4]})
            ctx.hist("zone_kind", "dst" if tz in fstree.DST_ZONES else "fixed")
            snap = corr.Snap(scratch, ents, subdir="t%d" % rd, tz=tz)
            # the printed column
            q = "select name, modified from . into list"
            ctx.case((tz, q))
            m, impl = corr.run_case(ctx, snap, [q], fmt="list", ncols=2)
            vals = impl["out"].split(b"\0")[:-1]
            for i in range(0, len(vals), 2):
                node = next(n for n in snap.nodes if n["name"].encode() == vals[i])
                if vals[i + 1].decode() != oracle.column(node, "modified", tz=tz):
                    ctx.oracle_fail("`modified` is not the local modification time", {"argv": [q], "tz": tz},
                                    detail={"got": vals[i + 1].decode(), "want": oracle.column(node, "modified", tz=tz)})
                    break
            for text, prec in lits:
                for op in (OPS if not quick else r.sample(OPS, 6)):
                    # an unquoted literal of a year before 1970 is arithmetic to the lexer (`1969-12-31` = 1926: its date test
                    # takes the years 1970..2999, documented as an optimistic assumption): such literals are written quoted
                    for quoted in ((True, False) if " " not in text and y >= 1970 else (True,)):
                        lit = "'%s'" % text if quoted else text
                        q = "select name from . where modified %s %s into list" % (op, lit)
                        ctx.case((tz, text, op, quoted))
                        ctx.hist("precision", prec)
                        m, impl = corr.run_case(ctx, snap, [q], fmt="list", ncols=1)
                        case = {"argv": [q], "tz": tz, "literal": text}
                        if impl["status"] != 0:
                            ctx.oracle_fail("date comparison failed", case, detail={"status": impl["status"], "err": impl["err"][:200].decode("utf-8", "replace")})
                            continue
                        got = set(impl["out"].split(b"\0")[:-1])
                        want = {n["name"].encode() for n in snap.nodes if oracle.holds(n, "modified", "date", op, text, tz=tz)}
                        if 0 < len(want) < len(snap.nodes):
                            ctx.distinct.add((tz, text, op, "nt"))
                        if got != want:
                            ctx.oracle_fail("rows differ from the interval semantics of the literal", case,
                                            detail={"extra": sorted(x.decode() for x in got - want)[:4], "missing": sorted(x.decode() for x in want - got)[:4]})
                        ctx.sample({"argv": [q], "tz": tz, "rows": len(got)}, every=31)
            common.rm_tree(snap.root)
        # relative literals under the real clock, then under wall clocks fixed (LD_PRELOAD shim, the model is told the same
        # day) on 29 February, the last and the first day of a year, the last day of a 30-day month, 1 March after a
        # short February: "today" is a quantified variable, not the day the check happens to run
        fixed = [None]
        if common.clock_shim() is not None:
            fixed += [1835438400 + 3 * 3600, 1830297540 - 12 * 3600, 1830297600 + 7 * 3600, 1782820800 + 5 * 3600, 1772323200 + 15 * 3600,
                      1709164800 + 13 * 3600]
            if quick:
                fixed = [None] + [fixed[1 + (ctx.seed + j) % 6] for j in range(2)]
        else:
            ctx.notes.append("clock shim could not be built: relative literals under the real clock only")
        for tz, fake in [(tz, fake) for fake in fixed for tz in zones]:
            now = int(time.time()) if fake is None else fake
            ctx.count("relative_literal_days_fixed_clock" if fake is not None else "relative_literal_days_real_clock")
            off = fstree.tz_off(tz, now)
            if any(fstree.tz_off(tz, now + k * 86400) != off for k in (-5, -3, -1, 1, 3, 5)):
                ctx.notes.append("relative literals skipped for %s: a daylight-saving transition is within five days" % tz)
                continue
            if (now + off) % 86400 > 86400 - 120:
                ctx.notes.append("relative literals skipped for %s: too close to local midnight" % tz)
                continue
            day0 = (now + off) // 86400 * 86400 - off    # local midnight today, in UTC seconds
            ents = []
            for k, delta in enumerate([-3 * 86400 - 1, -2 * 86400, -86400 - 1, -86400, -1, 0, 3600, 86399, 86400, 2 * 86400 + 5, 3 * 86400]):
                ents.append({"path": "r%02d" % k, "kind": "f", "size": 1, "mode": 0o644, "mtime": day0 + delta, "mtime_ns": [0, 750000000][k % 2]})
            snap = corr.Snap(scratch, ents, subdir="rel%s_" % (fake or "") + tz.replace("<", "").replace(">", "").replace(":", ""), tz=tz)
            if fake is not None:
                snap.fake_epoch = fake
            for lit, dd in [("today", 0), ("yesterday", -1), ("+1", 1), ("-2", -2), ("+2", 2), ("-1", -1)]:
                for op in ["=", "!=", "<", ">=", ">"]:
                    q = "select name from . where modified %s %s into list" % (op, lit if lit[0] not in "+-" else "'%s'" % lit)
                    ctx.case((tz, lit, op, fake))
                    m, impl = corr.run_case(ctx, snap, [q], fmt="list", ncols=1)
                    a = day0 + dd * 86400
                    b = a + 86399
                    f = {"=": lambda t: a <= t <= b, "!=": lambda t: not (a <= t <= b), "<": lambda t: t < a, ">=": lambda t: t >= a, ">": lambda t: t > b}[op]
                    want = {n["name"].encode() for n in snap.nodes if f(n["mtime"])}
                    got = set(impl["out"].split(b"\0")[:-1])
                    if impl["status"] != 0 or got != want:
                        ctx.oracle_fail("relative date literal does not denote the whole local day", {"argv": [q], "tz": tz, "fake_epoch": fake},
                                        detail={"status": impl["status"], "extra": sorted(x.decode() for x in got - want), "missing": sorted(x.decode() for x in want - got)})
            common.rm_tree(snap.root)
    finally:
        common.rm_tree(scratch)
