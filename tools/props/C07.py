"""C07: aggregate functions return the mathematical aggregate of the matching entries."""
import math
from fractions import Fraction

import common
import corr
import fstree

RULE = ("trees with zip archives searched with `archives` (COUNT/SUM/MAX against the rows of the plain query, select lists with and without column references); one tree of 521 sparse files of about 16 TiB each (total above 2^53, odd: SUM must be exact); trees with 0, 1, 2 and many matching entries, non-integer means, large (sparse) sizes x random non-empty "
        "subsets of the nine aggregates over size, hardlinks, uid, line_count, length(name) x optional WHERE; "
        "(a) CLI output vs the Lean model (floats compared with relative tolerance 1e-9), (b) oracle: Python "
        "Fraction/math over the rows of the same query without aggregates. distinct = (tree, argv); nontrivial = "
        ">= 2 matching entries")

AGGS = ["count", "sum", "min", "max", "avg", "var_pop", "var_samp", "stddev_pop", "stddev_samp"]
COLS = ["size", "hardlinks", "uid", "line_count", "length(name)"]


def expect(agg, xs):
    n = len(xs)
    if agg == "count":
        return n
    if agg == "sum":
        return sum(xs)
    if agg == "min":
        return min(xs) if xs else 0
    if agg == "max":
        return max(xs) if xs else 0
    if agg == "avg":
        return Fraction(sum(xs), n) if n else 0
    if n == 0:
        return None
    mu = Fraction(sum(xs), n)
    d = n if agg in ("var_pop", "stddev_pop") else (1 if n == 1 else n - 1)
    var = sum((mu - x) ** 2 for x in xs) / d
    if agg.startswith("var"):
        return var
    return math.sqrt(var)


def close(txt, want):
    if want is None:
        return txt == ""
    try:
        got = float(txt)
    except ValueError:
        return False
    w = float(want)
    return abs(got - w) <= 1e-9 * max(1.0, abs(w))


def part_huge_total(ctx, scratch):
    """SUM is exact also when the total does not fit the 53-bit mantissa of a double: several hundred sparse files
    of (nearly) the largest size the file system allows, with an odd total above 2^53"""
    import os
    root = os.path.join(scratch, "huge")
    os.makedirs(root)
    big = 17592186040319          # 16 TiB - 4 KiB - 1: the ext4 limit minus one, odd
    n = 0
    try:
        for i in range(521):
            with open(os.path.join(root, "s%03d" % i), "wb") as f:
                f.truncate(big - (i % 3))
            n += 1
    except OSError as e:
        ctx.notes.append("huge-total part skipped: the scratch file system refuses %d-byte sparse files (%s)" % (big, e))
        common.rm_tree(root)
        return
    xs = [os.lstat(os.path.join(root, nm)).st_size for nm in sorted(os.listdir(root))]
    total = sum(xs)
    for where, sub in (("", xs), (" where size = %d" % big, [x for x in xs if x == big])):
        q = "select sum(size), count(*), min(size), max(size) from .%s into list" % (where + (" and " if where else " where ") + "is_file = true")
        ctx.case(("huge", q))
        ctx.distinct.add(("huge", q, "nt"))
        r0 = common.run_cli([q], cwd=root, scratch=scratch, timeout=60)
        got = [v.decode() for v in r0["out"].split(b"\0")[:-1]]
        want = [str(sum(sub)), str(len(sub)), str(min(sub)), str(max(sub))]
        if r0["status"] != 0 or got != want:
            ctx.oracle_fail("SUM/COUNT/MIN/MAX over sizes whose total exceeds 2^53 are not exact", {"argv": [q], "tree": "%d sparse files of about 16 TiB each" % n},
                            detail={"got": got, "want": want, "total_exceeds_2_53": sum(sub) > 2 ** 53, "status": r0["status"]})
    ctx.count("huge_total_files", n)
    assert total > 2 ** 53
    common.rm_tree(root)


def part_archives(ctx, scratch, quick):
    """aggregates count what the same query without aggregates returns — also the members of zip archives under
    `archives`, and whatever the select list looks like (a list without column references carries an implicit limit)"""
    for t in range(4 if quick else 40):
        r = ctx.rng.fork()
        ents = fstree.gen_tree(r, max_entries=r.choice([3, 8]), kinds="fd", sizes=[1, 2, 5, 10, 100])
        for i in range(r.range(1, 2)):
            ents.append({"path": "pack%d.zip" % i, "kind": "z", "members": fstree.gen_zip_members(r, r.choice([3, 5, 8])), "mtime": 1700000000})
        snap = corr.Snap(scratch, ents, subdir="arc%d" % t)
        for where in ("", " where size > 0", " where name like '%.txt' or size >= 5"):
            for sel, pick in (("count(*)", lambda xs: len(xs)), ("count(*), sum(size)", None), ("max(size), count(name)", None)):
                trav = r.choice(["", " dfs"])
                q = "select %s from . archives%s%s into list" % (sel, trav, where)
                qrows = "select size from . archives%s%s into list" % (trav, where)
                ctx.case(("arc", t, q))
                ctx.distinct.add(("arc", t, q, "nt"))
                a = common.run_cli([q], cwd=snap.root, scratch=scratch)
                rr = common.run_cli([qrows], cwd=snap.root, scratch=scratch)
                xs = [int(v) for v in rr["out"].split(b"\0")[:-1] if v]
                got = [v.decode() for v in a["out"].split(b"\0")[:-1]]
                want = {"count(*)": [str(len(xs))], "count(*), sum(size)": [str(len(xs)), str(sum(xs))],
                        "max(size), count(name)": [str(max(xs) if xs else 0), str(len(xs))]}[sel]
                if a["status"] != 0 or got != want:
                    ctx.oracle_fail("aggregates over a search with `archives` do not count what the plain query returns",
                                    {"argv": [q], "rows_argv": [qrows], "tree": [n["rel"] for n in snap.nodes][:30]},
                                    detail={"got": got, "want": want, "status": a["status"]})
        common.rm_tree(snap.root)


def run(ctx):
    quick = ctx.tier == "quick"
    ntrees = 20 if quick else 200
    per_tree = 10 if quick else 30
    scratch = common.new_scratch()
    try:
        part_huge_total(ctx, scratch)
        part_archives(ctx, scratch, quick)
        for t in range(ntrees):
            r = ctx.rng.fork()
            sizes = r.choice([[0, 1, 2, 3, 5, 7, 10, 100, 1023, 1025], [1, 2], [10, 11, 13, 4096],
                              [2 ** 31 + 1, 2 ** 33 + 5, 7, 1],
                              [3000000001, 3000000002, 3000000003, 3000000006], [400000001, 400000003, 400000002]])
            ents = fstree.gen_tree(r, max_entries=r.choice([1, 2, 3, 8, 25]), kinds="fdl", sizes=sizes)
            for i, e in enumerate(ents):
                if e["kind"] == "f" and e["size"] > 10 ** 6:
                    e["sparse"] = True
                elif e["kind"] == "f" and i % 3 != 2:
                    # real lines, so that line_count has distinct non-zero values
                    e["content"] = (b"x\n" * (e["size"] // 2) + b"y" * (e["size"] % 2))[:e["size"]]
            snap = corr.Snap(scratch, ents, subdir="t%d" % t)
            for _ in range(per_tree):
                col = r.choice(COLS if max(sizes) < 10 ** 6 else [c for c in COLS if c != "line_count"])
                aggs = r.sample(AGGS, r.range(1, 4))
                where = r.choice(["", " where is_file = true", " where size > 5", " where name like '%z%q%'",
                                  " where is_dir = true", " where size >= 1 and size <= 1025"])
                # a column that is empty for some entries (line_count of a directory or link): every matching entry still
                # counts; restricted to the aggregates whose meaning the property fixes for that case (COUNT, SUM, AVG = SUM/COUNT)
                partial = False
                if max(sizes) < 10 ** 6 and r.chance(1, 6):
                    col = "line_count"
                    where = r.choice(["", " where size > 5", " where is_dir = true", " where size >= 1 and size <= 1025"])
                if col == "line_count" and "is_file" not in where:
                    partial = True
                    # (MIN / MAX range over the entries that have a value)
                    aggs = ["avg"] + r.sample(["count", "sum", "min", "max"], r.range(0, 3))
                sel = ", ".join("%s(%s)" % (a, "*" if (a == "count" and r.chance(1, 2)) else col) for a in aggs)
                q = "select %s from .%s into list" % (sel, where)
                qrows = "select %s from .%s into list" % (col, where)
                ctx.case((t, q))
                m, impl = corr.run_case(ctx, snap, [q], fmt="list", ncols=len(aggs))
                rr = common.run_cli([qrows], cwd=snap.root, scratch=scratch)
                case = {"argv": [q], "rows_argv": [qrows], "tree": [n["rel"] for n in snap.nodes][:40]}
                if impl["status"] != 0 or rr["status"] != 0:
                    ctx.oracle_fail("aggregate query failed", case, detail={"status": impl["status"]})
                    continue
                cells = rr["out"].split(b"\0")[:-1]
                try:
                    xs = [int(v) for v in cells if not (partial and v == b"")]
                except ValueError:
                    continue
                nrows = len(cells)
                if partial and nrows != len(xs):
                    ctx.count("aggregates_over_partly_empty_column")

                if len(xs) >= 2:
                    ctx.distinct.add((t, q, "nt"))
                ctx.hist("matches", min(len(xs), 30) // 5 * 5 if len(xs) > 2 else len(xs))
                got = [v.decode() for v in impl["out"].split(b"\0")[:-1]]
                if len(got) != len(aggs):
                    ctx.oracle_fail("aggregate query must return exactly one row", case, detail={"cells": got})
                    continue
                for a, g in zip(aggs, got):
                    ctx.hist("agg", a)
                    w = expect(a, xs)
                    if partial and a == "count":
                        w = nrows                          # COUNT counts entries, with or without a value
                    elif partial and a == "avg":
                        w = Fraction(sum(xs), nrows) if nrows else 0
                    ok = (g == str(w)) if isinstance(w, int) else close(g, w)
                    if not ok:
                        ctx.oracle_fail("%s(%s) = %s, expected %s" % (a, col, g, float(w) if w is not None else "''"), case,
                                        detail={"values": xs[:20], "agg": a})
                ctx.sample({"argv": [q], "cells": got, "n": len(xs)}, every=41)
            common.rm_tree(snap.root)
    finally:
        common.rm_tree(scratch)
