"""C06: LIMIT N returns min(N, matches) rows, and with ORDER BY the true top N."""
import common
import corr
import fstree
import gen
from props.C05 import KEYS, tie_tree, keyval

RULE = ("per generated (tree, query) every N in 1..M+2 exhaustively (M = rows of the unlimited run), queries filtered or "
        "not, ordered (keys with ties straddling the cut) or not, grouped or not, bfs/dfs, one to three roots, the first column plain or wrapped in a function whose later argument is the column; (a) CLI output vs the "
        "Lean model, (b) oracle against the unlimited run of the same binary: row count = min(N, M); unordered: "
        "sub-multiset; ordered: key sequence = first N keys of the unlimited sorted run. distinct = (tree, argv); "
        "nontrivial = 1 <= N < M")


def rows_of(out, n):
    vals = out.split(b"\0")[:-1]
    return [tuple(vals[i:i + n]) for i in range(0, len(vals), n)]


def run(ctx):
    quick = ctx.tier == "quick"
    ntrees = 16 if quick else 150
    per_tree = 4 if quick else 10
    scratch = common.new_scratch()
    try:
        for t in range(ntrees):
            r = ctx.rng.fork()
            ents = tie_tree(r)
            with_arc = r.chance(1, 2)
            if with_arc and r.chance(1, 3):
                ents = []          # nothing but archives: no later entry can fill a limit
            if with_arc:
                for i in range(r.range(1, 2)):
                    ents.append({"path": "pack%d.zip" % i, "kind": "z", "members": fstree.gen_zip_members(r, r.choice([2, 5, 8])),
                                 "mtime": 1700000000})
            snap = corr.Snap(scratch, ents, subdir="t%d" % t, tz="UTC")
            dirs = [gen.quote_path("./" + n["rel"]) for n in snap.nodes if n["kind"] == "d"]
            dirs = [d for d in dirs if d]
            for _ in range(per_tree):
                ordered = r.chance(2, 3)
                keys = r.sample(KEYS[:8], r.range(1, 2)) if ordered else []
                asc = [r.chance(2, 3) for _ in keys]
                where = r.choice(["", "", " where size > 0", " where is_dir = false", " where name like '%.log'", " where name like '%.txt' or size = 10"])
                roots = "."
                if dirs and r.chance(1, 3):
                    # several roots: a later root can hold the best keys, and the rows of the earlier roots alone can
                    # already fill the limit
                    more = r.sample(dirs + ["."], min(len(dirs) + 1, r.choice([1, 2, 2, 3])))
                    roots = ", ".join(more)
                    if len(more) > 1:
                        ctx.count("several_roots_ordered" if ordered else "several_roots_unordered")
                trav = r.choice(["", " bfs", " dfs"]) + (r.choice([" arc", " archives"]) if with_arc and r.chance(2, 3) else "")
                # every fourth query shows the path through a function whose *later* argument is the column: still one
                # row per entry (an absent limit is no limit, whatever the select list looks like)
                first = "path" if not r.chance(1, 4) else r.choice(["concat('x-', path)", "coalesce('', path)", "concat_ws('_', 'p', path)", "upper(concat('x-', path))"])
                sel = [first] + [k for k, _ in keys]
                order = (" order by " + ", ".join(k + ("" if a else " desc") for (k, _), a in zip(keys, asc))) if keys else ""
                base = "select %s from %s%s%s%s" % (", ".join(sel), roots, trav, where, order)
                un = common.run_cli([base + " into list"], cwd=snap.root, scratch=scratch)
                if un["status"] not in (0,) or common.panicked(un):
                    ctx.oracle_fail("unlimited run failed", {"argv": [base + " into list"]}, detail={"status": un["status"]})
                    continue
                full = rows_of(un["out"], len(sel))
                M = len(full)
                if first != "path":
                    plain = common.run_cli([base.replace(first, "path", 1) + " into list"], cwd=snap.root, scratch=scratch)
                    ctx.case((t, base, "rows-independent-of-select-list"))
                    if len(rows_of(plain["out"], len(sel))) != M:
                        ctx.oracle_fail("without LIMIT the number of rows must not depend on how the select list spells a column",
                                        {"argv": [base + " into list"], "plain_argv": [base.replace(first, "path", 1) + " into list"]},
                                        detail={"rows": M, "rows_with_plain_column": len(rows_of(plain["out"], len(sel)))})
                ctx.hist("M", min(M, 40) // 5 * 5)
                for N in range(1, M + 3):
                    q = base + " limit %d into list" % N
                    ctx.case((t, q))
                    if N < M:
                        ctx.distinct.add((t, q, "nt"))
                    m, impl = corr.run_case(ctx, snap, [q], fmt="list", ncols=len(sel))
                    case = {"argv": [q], "unlimited_argv": [base + " into list"], "N": N, "M": M,
                            "tree": [n["rel"] for n in snap.nodes][:50]}
                    if impl["status"] != 0 or common.panicked(impl):
                        ctx.oracle_fail("limited run did not exit 0", case, detail={"status": impl["status"]})
                        continue
                    got = rows_of(impl["out"], len(sel))
                    if len(got) != min(N, M):
                        ctx.oracle_fail("LIMIT N must return min(N, M) rows", case, detail={"got": len(got)})
                        continue
                    if not keys:
                        pool = list(full)
                        ok = True
                        for g in got:
                            if g in pool:
                                pool.remove(g)
                            else:
                                ok = False
                        if not ok:
                            ctx.oracle_fail("limited rows are not a sub-multiset of the unlimited rows", case)
                    else:
                        if [g[1:] for g in got] != [f[1:] for f in full[:N]]:
                            ctx.oracle_fail("key sequence differs from the first N keys of the sorted unlimited result", case,
                                            detail={"got": [list(map(bytes.decode, g)) for g in got][:5],
                                                    "want": [list(map(bytes.decode, f)) for f in full[:N]][:5]})
                        if sorted(got) != sorted(set(got) & set(full)) and not set(got) <= set(full):
                            ctx.oracle_fail("limited ordered rows are not rows of the unlimited result", case)
                    ctx.sample({"argv": [q], "N": N, "M": M}, every=101)
                # limit 0 = unlimited
                z = common.run_cli([base + " limit 0 into list"], cwd=snap.root, scratch=scratch)
                ctx.case((t, base + " limit 0"))
                if z["out"] != un["out"]:
                    ctx.oracle_fail("limit 0 differs from no limit", {"argv": [base + " limit 0 into list"]})
            # grouped queries: LIMIT counts the group rows (D85 fix: it used to be ignored there)
            gkey = r.choice(["ext", "is_dir", "length(name)", "dir"])
            gsel = [gkey, r.choice(["count(*)", "sum(size)", "max(size)"])]
            gord = r.choice(["", "", " order by 1", " order by 1 desc", " order by 2 desc", " order by 2, 1"])
            gbase = "select %s from .%s group by %s%s" % (", ".join(gsel), r.choice(["", " where size > 0"]), gkey, gord)
            gun = common.run_cli([gbase + " into list"], cwd=snap.root, scratch=scratch)
            gfull = rows_of(gun["out"], 2)
            G = len(gfull)
            ctx.hist("groups", min(G, 12))
            for N in range(1, G + 3) if gun["status"] == 0 else []:
                q = gbase + " limit %d into list" % N
                ctx.case((t, q))
                ctx.count("grouped_limit_queries")
                if N < G:
                    ctx.distinct.add((t, q, "nt"))
                m, impl = corr.run_case(ctx, snap, [q], fmt="list", ncols=2)
                case = {"argv": [q], "unlimited_argv": [gbase + " into list"], "N": N, "M": G, "tree": [n["rel"] for n in snap.nodes][:50]}
                got = rows_of(impl["out"], 2)
                if impl["status"] != 0 or len(got) != min(N, G):
                    ctx.oracle_fail("LIMIT N over a grouped query must return min(N, groups) rows", case, detail={"got": len(got), "status": impl["status"]})
                    continue
                pool = list(gfull)
                for g in got:
                    if g in pool:
                        pool.remove(g)
                    else:
                        ctx.oracle_fail("limited group rows are not rows of the unlimited grouped result", case)
                        break
                if gord:
                    ki = [int(x.split(" ")[0]) - 1 for x in gord.replace(" order by ", "").split(", ")]
                    if [[g[i] for i in ki] for g in got] != [[f[i] for i in ki] for f in gfull[:N]]:
                        ctx.oracle_fail("grouped key sequence differs from the first N keys of the sorted unlimited result", case,
                                        detail={"got": [list(map(bytes.decode, g)) for g in got][:5], "want": [list(map(bytes.decode, f)) for f in gfull[:N]][:5]})
            common.rm_tree(snap.root)
    finally:
        common.rm_tree(scratch)
