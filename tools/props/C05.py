"""C05: ORDER BY output is sorted by the requested keys and loses or invents no row."""
import os

import common
import corr
import fstree
import gen

RULE = ("random trees with many ties (few distinct sizes/mtimes, equal names in different directories, multi-digit "
        "sizes, names and extensions that read like numbers, directories next to siblings that continue their name with `-`, `.` or a blank) x key lists of length 1..3 over string/numeric/date columns and integer-valued expressions x "
        "directions x positional/explicit keys x with/without WHERE; (a) CLI output vs the Lean model byte for byte, "
        "(b) oracle: permutation of the unordered run + every adjacent pair ordered under an independent Python "
        "comparator. distinct = distinct (tree, argv); nontrivial = result has >= 2 rows")

KEYS = [("name", "s"), ("ext", "s"), ("path", "s"), ("dir", "s"), ("abspath", "s"), ("size", "n"), ("hardlinks", "n"), ("uid", "n"),
        ("modified", "d"), ("length(name)", "n"), ("mode", "s"), ("is_dir", "s"), ("size + 1", "n"),
        ("size - 100", "n"), ("hardlinks - 3", "n"), ("size * 2 - 150", "n"), ("length(name) - 20", "n"),
        ("dow(modified)", "n"), ("day(modified)", "n"), ("month(modified)", "n"),
        # the literal first: such a key can only be named by position (`order by 100 - size` reads `100` as a position)
        ("100 - size", "n"), ("2 * size", "n"), ("1000 - length(name) * 7", "n")]
POS_ONLY = {"100 - size", "2 * size", "1000 - length(name) * 7"}


def tie_tree(r):
    sizes = r.sample([0, 1, 2, 5, 9, 10, 11, 40, 60, 95, 99, 100, 101, 300, 1000, 1024, 20000], r.range(3, 7))
    mtimes = [1700000000 + 86400 * k for k in r.sample(range(40), r.range(2, 4))]
    ents = fstree.gen_tree(r, max_entries=r.choice([6, 14, 30]), kinds="fdl", sizes=sizes, mtimes=mtimes,
                           adversarial=r.chance(1, 5))
    if r.chance(1, 2):
        # names and extensions that read like numbers are text all the same: `10` sorts before `9`
        dirs = [""] + [e["path"] for e in ents if e["kind"] == "d"]
        have = {e["path"] for e in ents}
        for nm in r.sample(["9", "10", "100", "25", "1e3", "7.5", "inf", "-3", "+4", "0x10", "app.log.9", "app.log.10", "app.log.100", "b.2", "b.11"], r.range(3, 8)):
            d = r.choice(dirs)
            p = (d + "/" if d else "") + nm
            if p not in have:
                have.add(p)
                ents.append({"path": p, "kind": "f", "size": r.choice(sizes), "mode": 0o644, "mtime": r.choice(mtimes), "lines": 0})
    if r.chance(1, 2):
        # a directory next to siblings whose names continue its name with a character below `/` (`-`, `.`, blank):
        # as text `a-1.txt` < `a.d` < `a/x`, although `a/x` is "inside a"
        have = {e["path"] for e in ents}
        base = r.choice(["a", "sub", "k9"])
        if not any(p == base or p.startswith(base + "/") for p in have):
            ents.append({"path": base, "kind": "d", "mode": 0o755, "mtime": r.choice(mtimes)})
            ents.append({"path": base + "/x.txt", "kind": "f", "size": r.choice(sizes), "mode": 0o644, "mtime": r.choice(mtimes), "lines": 0})
            for nm in r.sample([base + "-1.txt", base + ".d", base + " b", base + ".txt", base + "+"], r.range(2, 4)):
                if nm not in have:
                    if nm.endswith(".d"):
                        ents.append({"path": nm, "kind": "d", "mode": 0o755, "mtime": r.choice(mtimes)})
                        ents.append({"path": nm + "/y.txt", "kind": "f", "size": r.choice(sizes), "mode": 0o644, "mtime": r.choice(mtimes), "lines": 0})
                    else:
                        ents.append({"path": nm, "kind": "f", "size": r.choice(sizes), "mode": 0o644, "mtime": r.choice(mtimes), "lines": 0})
    return ents


def keyval(kind, text):
    if kind == "n":
        try:
            return float(text)
        except ValueError:
            return 0.0
    return text     # dates print as YYYY-MM-DD HH:MM:SS: string order = chronological order


def check_sorted(rows, kinds, dirs):
    """rows: list of lists of key texts. returns index of first out-of-order adjacent pair or None"""
    for i in range(len(rows) - 1):
        a, b = rows[i], rows[i + 1]
        for j, k in enumerate(kinds):
            x, y = keyval(k, a[j]), keyval(k, b[j])
            if k != "n":
                x, y = x.encode(), y.encode()
            if x == y:
                continue
            asc = dirs[j]
            if (x < y) != asc:
                return i
            break
    return None


def run(ctx):
    quick = ctx.tier == "quick"
    ntrees = 25 if quick else 300
    per_tree = 10 if quick else 24
    scratch = common.new_scratch()
    try:
        for t in range(ntrees):
            r = ctx.rng.fork()
            snap = corr.Snap(scratch, tie_tree(r), subdir="t%d" % t, tz=r.choice(list(fstree.TZ_OFFSETS)))
            for _ in range(per_tree):
                nk = r.range(1, 3)
                keys = r.sample(KEYS, nk)
                dirs = [r.chance(2, 3) for _ in keys]
                where = r.choice(["", "", " where size >= 0", " where is_file = true", " where name != 'zz'"])
                positional = r.chance(1, 4) or any(k in POS_ONLY for k, _ in keys)
                # without the path in the select list different entries give the same row text (equal names in different
                # directories, equal sizes): every one of them is a row of its own
                with_path = r.chance(3, 4)
                off = 1 if with_path else 0
                if not with_path:
                    ctx.count("select_list_without_path")
                sel = (["path"] if with_path else []) + [k for k, _ in keys]
                order = []
                for i, (k, _) in enumerate(keys):
                    spell = str(i + 1 + off) if positional else k
                    order.append(spell + ("" if dirs[i] and r.chance(1, 2) else (" asc" if dirs[i] else " desc")))
                # a key may be listed again later (by name or by position, any direction): the first mention decides,
                # the repeat can never change the order
                if r.chance(1, 4):
                    j = r.below(len(keys))
                    spell = str(j + 1 + off) if (r.chance(1, 2) or keys[j][0] in POS_ONLY) else keys[j][0]
                    order.insert(r.range(j + 1, len(order)), spell + r.choice(["", " asc", " desc", " desc"]))
                    ctx.count("repeated_key")
                q_un = "select %s from .%s into list" % (", ".join(sel), where)
                q_or = "select %s from .%s order by %s into list" % (", ".join(sel), where, ", ".join(order))
                ctx.case((t, q_or))
                ctx.hist("keys", nk)
                ctx.hist("key_kinds", "".join(k for _, k in keys))
                m, impl = corr.run_case(ctx, snap, [q_or], fmt="list", ncols=len(sel))
                un = common.run_cli([q_un], cwd=snap.root, scratch=scratch, tz=snap.tz)
                case = {"argv": [q_or], "unordered_argv": [q_un], "tree": [n["rel"] for n in snap.nodes][:50], "tz": snap.tz}
                if impl["status"] != 0 or un["status"] != 0 or common.panicked(impl):
                    ctx.oracle_fail("ordered/unordered run did not exit 0", case, detail={"status": impl["status"], "err": impl["err"][:200].decode("utf-8", "replace")})
                    continue

                def rows_of(out):
                    vals = out.split(b"\0")[:-1]
                    n = len(sel)
                    return [[v.decode("utf-8", "replace") for v in vals[i:i + n]] for i in range(0, len(vals), n)]
                ro, ru = rows_of(impl["out"]), rows_of(un["out"])
                if len(ro) >= 2:
                    ctx.distinct.add((t, q_or, "nt"))
                ctx.hist("rows", min(len(ro), 40) // 5 * 5)
                if sorted(map(tuple, ro)) != sorted(map(tuple, ru)):
                    ctx.oracle_fail("ORDER BY output is not a permutation of the unordered output", case,
                                    detail={"ordered_rows": len(ro), "unordered_rows": len(ru)})
                    continue
                if len(set(map(tuple, ro))) < len(ro):
                    ctx.count("results_with_equal_rows")
                bad = check_sorted([row[off:] for row in ro], [k for _, k in keys], dirs)
                if bad is not None:
                    ctx.oracle_fail("adjacent rows out of order", case, detail={"rows": ro[bad:bad + 2], "keys": keys, "asc": dirs})
                ctx.sample({"argv": [q_or], "rows": len(ro)}, every=37)
                # a key need not be selected: same path order when the keys are dropped from the select list
                if with_path and r.chance(1, 4) and not positional and not any(o.split(" ")[0].isdigit() for o in order):
                    q2 = "select path from .%s order by %s into list" % (where, ", ".join(order))
                    r2 = common.run_cli([q2], cwd=snap.root, scratch=scratch, tz=snap.tz)
                    ctx.case((t, q2))
                    if r2["out"].split(b"\0")[:-1] != [row[0].encode() for row in ro]:
                        ctx.oracle_fail("ordering by unselected keys differs from ordering by selected keys",
                                        {"argv": [q2], "selected_argv": [q_or], "tree": case["tree"]})
            if t % 5 == 0:
                # the order of absolute dates does not depend on the day the query runs: under a wall clock fixed on
                # 29 February, on the last minute of a year, ... the ordered output is the same (D86: the comparator's
                # fallback date was built from today's date and did not exist on 29 February)
                qd = "select path, modified from . order by modified%s, path into list" % r.choice(["", " desc"])
                plain = common.run_cli([qd], cwd=snap.root, scratch=scratch, tz=snap.tz)
                for epoch in (1835438400, 1709164830, 1830297540, 1772323200):   # 2028-02-29 12:00, 2024-02-29 00:00:30, 2027-12-31 23:59, 2026-03-01 (UTC)
                    env = common.fake_clock_env(epoch)
                    if env is None:
                        ctx.notes.append("clock shim could not be built: fixed-clock runs skipped")
                        break
                    ctx.case((t, qd, epoch))
                    ctx.count("fixed_clock_runs")
                    fk = common.run_cli([qd], cwd=snap.root, scratch=scratch, tz=snap.tz, extra_env=env)
                    if common.panicked(fk) or fk["status"] != plain["status"] or fk["out"] != plain["out"]:
                        ctx.oracle_fail("ORDER BY over a date column depends on the day the query runs", {"argv": [qd], "fake_epoch": epoch, "tz": snap.tz,
                                        "tree": [n["rel"] for n in snap.nodes][:50]},
                                        detail={"status": fk["status"], "err": fk["err"][:200].decode("utf-8", "replace")})
            common.rm_tree(snap.root)
    finally:
        common.rm_tree(scratch)
