"""C02: WHERE comparisons mean what the documentation says, for every entry."""
import common
import corr
import fstree
import gen
import oracle

RULE = ("random trees (files, directories, symlinks, FIFOs; modes incl. suid/sgid; ties) x atomic conditions over the "
        "always-available columns x all documented operator spellings x literals drawn from the attribute values "
        "present in the tree, their neighbours v-1/v/v+1, unit spellings and random others; BETWEEN; column OP column; "
        "quoted literals that spell column/function names. (a) CLI rows vs the Lean model, (b) oracle: an independent "
        "Python evaluation of the documented meaning from lstat data for every entry. distinct = (tree, atom); "
        "nontrivial = the atom is neither true nor false for all entries (measured)")

NUM = ["size", "uid", "gid", "hardlinks", "length(name)"]
TEXT = ["name", "path", "ext", "dir", "mode"]
BOOL = ["is_dir", "is_file", "is_symlink", "is_pipe", "is_char", "is_block", "is_socket", "is_hidden", "is_empty", "user_read", "user_write", "user_exec",
        "group_read", "group_write", "group_exec", "other_read", "other_write", "other_exec", "suid", "sgid", "user_all"]
NUM_OPS = ["=", "==", "eq", "!=", "<>", "ne", ">", "gt", ">=", "gte", "ge", "<", "lt", "<=", "lte", "le", "===", "!=="]
TEXT_OPS = ["=", "!=", "===", "!==", "like", "not like", "notlike", "=~", "!=~", "rx", "eq", "ne"]
BOOL_LITS = ["true", "false", "1", "0", "yes", "no", "y", "n", "TRUE", "No", "Y"]


def q(lit):
    return "'" + lit + "'" if "'" not in lit else '"' + lit + '"'


def gen_atom(r, snap):
    nodes = snap.nodes
    n = r.choice(nodes)
    k = r.below(10)
    if k < 4:
        col = r.choice(NUM if r.chance(1, 6) else ["size", "hardlinks", "length(name)", "size"])
        v = int(oracle.column(n, col))
        v = max(0, v + r.choice([-1, 0, 0, 1]))
        style = r.below(6)
        if style == 0 and v % 1024 == 0 and v > 0:
            lit = "%d%s" % (v // 1024, r.choice(["k", "K", "kib", "KiB"]))
        elif style == 1 and v % 1000 == 0 and v > 0:
            lit = "%dkb" % (v // 1000)
        elif style == 2:
            lit = "%d.5" % v
        elif style == 3:
            lit = "%db" % v
        else:
            lit = str(v)
        op = r.choice(NUM_OPS)
        return ("num", col, op, lit, "%s %s %s" % (col, op, lit))
    if k < 7:
        col = r.choice(TEXT)
        v = oracle.column(n, col)
        op = r.choice(TEXT_OPS)
        kind = oracle.OPK[op]
        lit = v
        if kind in ("eq", "ne") and r.chance(1, 2) and v:
            i = r.below(len(v))
            lit = v[:i] + r.choice(["*", "?"]) + v[i + 1:]
            if r.chance(1, 2):
                lit = lit.swapcase()
        elif kind in ("like", "notlike") and v:
            i = r.below(len(v))
            lit = v[:i] + r.choice(["%", "_"]) + v[i + 1:]
        elif kind in ("rx", "notrx"):
            alnum = "".join(c for c in v if c.isalnum())[:4]
            lit = r.choice(["^" + alnum, alnum + "$", alnum[:1] + ".*" + alnum[-1:], "[a-c]", "\\.txt$"]) if alnum else "^$"
        elif r.chance(1, 4):
            lit = v + "x"
        if "'" in lit and '"' in lit:
            lit = lit.replace('"', "")
        return ("text", col, op, lit, "%s %s %s" % (col, op, q(lit)))
    if k == 7 and r.chance(1, 2):
        # date column against a literal naming the entry's own second / minute / hour / day (or a neighbour)
        import time as _t
        t = n["mtime"] + r.choice([-1, 0, 0, 0, 1])
        tm = _t.gmtime(t)
        lit = r.choice([_t.strftime("%Y-%m-%d %H:%M:%S", tm), _t.strftime("%Y-%m-%d %H:%M", tm), _t.strftime("%Y-%m-%d %H", tm),
                        _t.strftime("%Y-%m-%d", tm), _t.strftime("%Y-%m-%d %H:%M:%S", tm)])
        op = r.choice(["=", "!=", ">", ">=", "<", "<=", "gt", "lte", "eq", "ne"])
        return ("date", "modified", op, lit, "modified %s '%s'" % (op, lit))
    if k < 9:
        col = r.choice(BOOL if r.chance(1, 3) else ["is_dir", "is_file", "is_hidden", "is_empty", "user_exec", "group_write", "other_read", "other_exec", "group_read"])
        lit = r.choice(BOOL_LITS)
        op = r.choice(["=", "!=", "==", "ne", "eq"])
        return ("bool", col, op, lit, "%s %s %s" % (col, op, lit))
    # quoted literal spelling a column / function name is text
    col = r.choice(["name", "ext", "name", "dir", "mode"])
    # spellings of columns/functions, and the internal display texts of expressions (the evaluator's
    # value cache is keyed by those texts: a literal must never be answered from it)
    lit = r.choice(["size", "bin", "name", "hex", "mode", "lower", "Name", "Extension", "Directory", "Mode", "Size", "Path",
                    "Length(Name)", "IsDir", "Uid", "(Size + 1)", "Lower(Name)"])
    op = r.choice(["=", "!=", "===", "like", "!==", "notlike"])
    return ("text", col, op, lit, "%s %s %s" % (col, op, q(lit)))


def run(ctx):
    quick = ctx.tier == "quick"
    ntrees = 14 if quick else 150
    per_tree = 40 if quick else 120
    scratch = common.new_scratch()
    consts = 0
    total = 0
    try:
        for t in range(ntrees):
            r = ctx.rng.fork()
            ents = fstree.gen_tree(r, max_entries=r.choice([8, 20, 35]), kinds="fdlps", adversarial=r.chance(1, 4))
            # names that spell columns/functions
            ents.append({"path": r.choice(["size", "bin", "name.hex", "lower.mode"]), "kind": "f", "size": 3, "mode": 0o644, "mtime": 1700000000})
            ents.append({"path": r.choice(["Name", "Extension", "Size", "Mode", "x.Extension", "Length(Name)"]), "kind": "f", "size": 4, "mode": 0o644, "mtime": 1700000000})
            # names and extensions that read like integers in non-canonical spelling: text all the same (`name = '007'` is not `7`)
            if r.chance(1, 2):
                have = {e["path"] for e in ents}
                for nm in r.sample(["007", "7", "01", "1", "+5", "5", "backup.001", "backup.1", "-3", "3", "00", "0"], r.range(4, 8)):
                    if nm not in have:
                        ents.append({"path": nm, "kind": "f", "size": r.choice([0, 1, 7]), "mode": 0o644, "mtime": 1700000000})
            snap = corr.Snap(scratch, ents, subdir="t%d" % t, tz="UTC")
            for _ in range(per_tree):
                kind, col, op, lit, text = gen_atom(r, snap)
                query = "path from . where %s into list" % text
                ctx.case((t, query))
                ctx.hist("atom_kind", kind)
                ctx.hist("op", oracle.OPK[op.lower()])
                m, impl = corr.run_case(ctx, snap, [query], fmt="list", ncols=1)
                case = {"argv": [query], "tree": [n["rel"] for n in snap.nodes][:50]}
                if impl["status"] != 0:
                    ctx.oracle_fail("atom query did not exit 0", case, detail={"status": impl["status"], "err": impl["err"][:200].decode("utf-8", "replace")})
                    continue
                got = set(impl["out"].split(b"\0")[:-1])
                want = set()
                undecided = False
                for n in snap.nodes:
                    h = oracle.holds(n, col, kind, op, lit)
                    if h is None:
                        undecided = True
                        break
                    if h:
                        want.add(("./" + n["rel"]).encode())
                if undecided:
                    ctx.count("oracle_undecided")
                    continue
                total += 1
                if len(want) in (0, len(snap.nodes)):
                    consts += 1
                else:
                    ctx.distinct.add((t, query, "nt"))
                if got != want:
                    ctx.oracle_fail("rows differ from the documented meaning of the comparison", case,
                                    detail={"atom": text, "extra": sorted(x.decode("utf-8", "replace") for x in got - want)[:5],
                                            "missing": sorted(x.decode("utf-8", "replace") for x in want - got)[:5]})
                ctx.sample({"argv": [query], "rows": len(got)}, every=97)
            # BETWEEN is inclusive; column OP column
            sizes = sorted({n["size"] for n in snap.nodes})
            for _ in range(6):
                a, b = sorted([r.choice(sizes), r.choice(sizes)])
                query = "path from . where size between %d and %d into list" % (a, b)
                ctx.case((t, query))
                m, impl = corr.run_case(ctx, snap, [query], fmt="list", ncols=1)
                want = {("./" + n["rel"]).encode() for n in snap.nodes if a <= n["size"] <= b}
                if set(impl["out"].split(b"\0")[:-1]) != want:
                    ctx.oracle_fail("BETWEEN is not inclusive at both ends", {"argv": [query], "tree": [n["rel"] for n in snap.nodes][:50]})
            # … also when the right-hand side is computed from other attributes of the same entry
            for c1, opx, c2, f in [("size", ">", "hardlinks", lambda n: n["size"] > n["nlink"]), ("uid", "=", "gid", lambda n: n["uid"] == n["gid"]),
                                   ("length(name)", ">=", "hardlinks", lambda n: len(n["name"]) >= n["nlink"]),
                                   ("size", "=", "length(name)", lambda n: n["size"] == len(n["name"])),
                                   ("size", "<", "length(name)", lambda n: n["size"] < len(n["name"])),
                                   ("hardlinks", "<", "length(name)", lambda n: n["nlink"] < len(n["name"])),
                                   ("size", ">", "hardlinks * 2", lambda n: n["size"] > n["nlink"] * 2),
                                   ("size", "<=", "length(name) + hardlinks", lambda n: n["size"] <= len(n["name"]) + n["nlink"])]:
                query = "path from . where %s %s %s into list" % (c1, opx, c2)
                ctx.case((t, query))
                m, impl = corr.run_case(ctx, snap, [query], fmt="list", ncols=1)
                want = {("./" + n["rel"]).encode() for n in snap.nodes if f(n)}
                if set(impl["out"].split(b"\0")[:-1]) != want:
                    ctx.oracle_fail("column OP column does not compare the two attributes of the entry", {"argv": [query], "tree": [n["rel"] for n in snap.nodes][:50]})
            # literals beyond the signed 64-bit range still compare numerically (they are larger than any size)
            for lit, val in [("9223372036854775808", 2 ** 63), ("18446744073709551615", 2 ** 64 - 1), ("9999999t", 9999999 * 2 ** 40),
                             ("9223372036854775807", 2 ** 63 - 1)]:
                opx = r.choice(["<", "<=", ">", ">=", "=", "!="])
                query = "path from . where size %s %s into list" % (opx, lit)
                ctx.case((t, query))
                m, impl = corr.run_case(ctx, snap, [query], fmt="list", ncols=1)
                f = {"<": lambda a: a < val, "<=": lambda a: a <= val, ">": lambda a: a > val, ">=": lambda a: a >= val,
                     "=": lambda a: a == val, "!=": lambda a: a != val}[opx]
                want = {("./" + n["rel"]).encode() for n in snap.nodes if f(n["size"])}
                if impl["status"] != 0 or set(impl["out"].split(b"\0")[:-1]) != want:
                    ctx.oracle_fail("a numeric literal beyond the signed 64-bit range does not compare numerically", {"argv": [query], "tree": [n["rel"] for n in snap.nodes][:50]},
                                    detail={"rows": impl["out"].count(b"\0"), "expected_rows": len(want), "status": impl["status"]})
            common.rm_tree(snap.root)
        ctx.stats["constant_atom_fraction"] = round(consts / max(total, 1), 3)
    finally:
        common.rm_tree(scratch)
