"""C03: AND / OR / NOT and brackets obey Boolean algebra over the result sets."""
import itertools

import os
import re

import common
import corr
import fstree

RULE = ("Boolean formulas (nesting depth <= 5, and/or/prefix not/brackets round or curly, infix `not like`, `not "
        "between`) over three atoms of different operator kinds, on trees that realise all 8 truth assignments of the "
        "atoms and contain entries whose attribute equals the literal; thorough: every formula shape up to size 7. "
        "(a) CLI rows vs the Lean model, (b) oracle: the row set of the formula computed by Python set algebra from "
        "the row sets of the three atom queries (run on the same binary) with `not` = complement within the "
        "unfiltered run. distinct = (tree, formula); nontrivial = the three atoms are neither all-true nor all-false")


def atoms_for(r):
    """three atoms (text, python-irrelevant) of different kinds; literals are boundary values of the tree below"""
    pool = [
        "size > 10", "size >= 10", "size < 10", "size <= 10", "size = 10", "size != 10",
        "size between 5 and 10", "size not between 5 and 10",
        "name like 'a%'", "name not like 'a%'", "name = '*.txt'", "name != '*.txt'", "name =~ '^b'", "name !=~ '^b'",
        "name === 'a1.txt'", "name !== 'a1.txt'", "ext = 'txt'", "ext != 'txt'",
        "name === 'a*'", "name !== 'a*'", "name === '?dir'", "modified === '2023-11-15'", "modified !== '2023-11-15'",
        "name eeq 'a*'", "name = 'a*'", "name like 'a_'", "name notlike '%.txt'",
        "is_dir", "is_dir = false", "is_file = true",
        "hardlinks = 1", "hardlinks > 1", "length(name) > 5", "length(name) <= 5",
        "modified > '2023-11-15'", "modified <= '2023-11-15'", "modified = '2023-11-15'", "modified != '2023-11-15'",
        "size + 1 > 10", "mode like '%x'",
        # text is ordered too (lexicographically): `not (name > 'b')` is `name <= 'b'`
        "name > 'b'", "name <= 'a9'", "name >= 'b1'", "name < 'adir'", "ext >= 'rs'", "ext < 'txt'",
        "name between 'a5' and 'b2'", "name not between 'a5' and 'b2'",
        "name =~ 'a.c'", "name like 'a.c'", "name = 'a?c'", "name like 'a?c'", "name =~ 'a?c'", "name not like 'a.c'", "name !=~ 'a.c'",
        "length(name) >= 2", "length(name) <= 11", "length(name) between 3 and 12", "length(name) not between 3 and 12", "size * 2 >= 20", "size * 2 < 100",
        # pattern operators match the text of a value of any type
        "size like '1%'", "size not like '1%'", "hardlinks =~ '^1$'", "size !=~ '^1'", "is_dir like 'f%'", "is_dir not like 'f%'",
        "modified like '2023-11-15%'", "modified not like '%00:00:00'", "length(name) like '_'",
    ]
    return r.sample(pool, 3)


def tree():
    ents = []
    day = 1700006400  # 2023-11-15 00:00:00 UTC
    i = 0
    for size in (0, 5, 9, 10, 11, 100):
        for name in ("a%d.txt", "b%d.txt", "a%d.rs", "b%d"):
            for mt in (day - 1, day, day + 86399, day + 86400):
                if (i * 7) % 5 < 2:
                    ents.append({"path": name % i, "kind": "f", "size": size, "mode": 0o755 if i % 3 else 0o644, "mtime": mt})
                i += 1
    ents.append({"path": "a*", "kind": "f", "size": 10, "mode": 0o644, "mtime": day + 5})
    ents.append({"path": "ab", "kind": "f", "size": 10, "mode": 0o644, "mtime": day})
    ents.append({"path": "adir", "kind": "d", "mode": 0o755, "mtime": day})
    ents.append({"path": "bdir.txt", "kind": "d", "mode": 0o700, "mtime": day + 86400})
    ents.append({"path": "adir/a1.txt", "kind": "f", "size": 10, "mode": 0o644, "mtime": day})
    ents.append({"path": "adir/hl", "kind": "f", "size": 11, "mode": 0o644, "mtime": day - 1})
    # names on which one literal text reads differently under regex, LIKE and glob
    for k, nm in enumerate(["a.c", "abc", "a-c", "xa.cy", "a?c", "ac"]):
        ents.append({"path": nm, "kind": "f", "size": [5, 9, 10, 11, 100, 0][k], "mode": 0o644, "mtime": day + k})
    # names of 10 to 14 characters next to the short ones: as text "7" > "11", as numbers 7 < 11
    for k, nm in enumerate(["abcdefghij", "abcdefghijk", "abcdefghijkl.t", "b-long-name-1"]):
        ents.append({"path": nm, "kind": "f", "size": [9, 10, 11, 100][k], "mode": 0o644, "mtime": day + k})
    return ents


def gen_formula(r, depth):
    """formula over atom indices 0..2: ('a', i) | ('not', f) | ('and', f, g) | ('or', f, g) | ('par', f)"""
    if depth <= 0 or r.chance(1, 4):
        return ("a", r.below(3))
    k = r.below(8)
    if k < 3:
        return ("and", gen_formula(r, depth - 1), gen_formula(r, depth - 1))
    if k < 6:
        return ("or", gen_formula(r, depth - 1), gen_formula(r, depth - 1))
    if k < 7:
        return ("not", gen_formula(r, depth - 1))
    return ("par", gen_formula(r, depth - 1))


def all_shapes(size):
    """every formula with exactly `size` nodes (atoms 0..2)"""
    if size == 1:
        return [("a", i) for i in range(3)]
    out = []
    for f in all_shapes(size - 1):
        out.append(("not", f))
    for ls in range(1, size - 1):
        for l in all_shapes(ls):
            for rr in all_shapes(size - 1 - ls):
                out.append(("and", l, rr))
                out.append(("or", l, rr))
    return out


def render(f, atoms, curly, top=True):
    """minimal brackets: OR inside AND and anything compound under NOT are bracketed"""
    o, c = ("{", "}") if curly else ("(", ")")
    k = f[0]
    if k == "a":
        return atoms[f[1]]
    if k == "par":
        return o + render(f[1], atoms, curly) + c
    if k == "not":
        inner = f[1]
        s = render(inner, atoms, curly)
        if inner[0] in ("and", "or"):
            s = o + s + c
        return "not " + s
    if k == "and":
        parts = []
        for x in (f[1], f[2]):
            s = render(x, atoms, curly)
            if x[0] == "or":
                s = o + s + c
            parts.append(s)
        # AND is parsed right-nested: a left operand that is itself an AND needs no bracket semantically
        return parts[0] + " and " + parts[1]
    if k == "or":
        return render(f[1], atoms, curly) + " or " + render(f[2], atoms, curly)


def ev(f, sets, universe):
    k = f[0]
    if k == "a":
        return sets[f[1]]
    if k == "par":
        return ev(f[1], sets, universe)
    if k == "not":
        return universe - ev(f[1], sets, universe)
    if k == "and":
        return ev(f[1], sets, universe) & ev(f[2], sets, universe)
    return ev(f[1], sets, universe) | ev(f[2], sets, universe)


def run(ctx):
    quick = ctx.tier == "quick"
    scratch = common.new_scratch()
    try:
        snap = corr.Snap(scratch, tree(), subdir="t", tz="UTC")
        allrows = common.run_cli(["path from . into list"], cwd=snap.root, scratch=scratch)
        universe = frozenset(allrows["out"].split(b"\0")[:-1])
        rounds = 30 if quick else 200
        for rd in range(rounds):
            r = ctx.rng.fork()
            atoms = atoms_for(r)
            if rd == 0:
                atoms = ["name > 'b'", "ext < 'txt'", "size > 10"]     # corpus: the witness of D73 (fixed) comes first
            if rd == 1:
                atoms = ["size like '1%'", "is_dir not like 'f%'", "modified like '2023-11-15%'"]     # … and of D74 (fixed)
            if rd == 2:
                # the same call in two atoms of one formula (each atom is evaluated on its own, with the call's numeric value)
                atoms = ["length(name) >= 2", "length(name) <= 11", "size > 10"]
            if rd == 3:
                atoms = ["length(name) between 3 and 12", "length(name) > 9", "length(name) != 6"]
            if rd == 4:
                # the same literal text under different pattern operators in one formula: each atom keeps its own reading
                atoms = ["name =~ 'a.c'", "name like 'a.c'", "name = 'a?c'"]
            if rd == 5:
                atoms = ["name like 'a?c'", "name = 'a?c'", "name =~ 'a?c'"]
            sets = []
            ok = True
            for a in atoms:
                ra = common.run_cli(["path from . where %s into list" % a], cwd=snap.root, scratch=scratch)
                if ra["status"] != 0:
                    ctx.oracle_fail("atom query failed", {"argv": ["path from . where %s into list" % a]}, detail={"status": ra["status"], "err": ra["err"][:200].decode("utf-8", "replace")})
                    ok = False
                    break
                sets.append(frozenset(ra["out"].split(b"\0")[:-1]))
                # ordering atoms over the name: the documented reading is plain lexicographic order of the bytes
                tm = re.match(r"^name (>|<=|>=|<) '([^']*)'$", a)
                if tm:
                    import operator
                    fn = {">": operator.gt, "<=": operator.le, ">=": operator.ge, "<": operator.lt}[tm.group(1)]
                    want_a = frozenset(p for p in universe if fn(os.path.basename(p), tm.group(2).encode()))
                    if sets[-1] != want_a:
                        ctx.oracle_fail("ordering comparison of a text column is not the lexicographic order", {"argv": ["path from . where %s into list" % a]},
                                        detail={"extra": sorted(x.decode() for x in sets[-1] - want_a)[:5], "missing": sorted(x.decode() for x in want_a - sets[-1])[:5]})
            if not ok:
                continue
            nontrivial = any(0 < len(s) < len(universe) for s in sets)
            if quick or rd % 4:
                formulas = [gen_formula(r, r.range(1, 5)) for _ in range(12 if quick else 20)]
            else:
                formulas = all_shapes(r.choice([3, 4, 5])) if not quick else []
                formulas = r.sample(formulas, min(len(formulas), 400))
            for f in formulas:
                curly = r.chance(1, 4)
                text = render(f, atoms, curly)
                q = "path from . where %s into list" % text
                ctx.case((rd, q))
                if nontrivial:
                    ctx.distinct.add((rd, q, "nt"))
                m, impl = corr.run_case(ctx, snap, [q], fmt="list", ncols=1)
                case = {"argv": [q], "atoms": atoms, "formula": repr(f)}
                if impl["status"] != 0:
                    ctx.oracle_fail("formula query failed", case, detail={"status": impl["status"], "err": impl["err"][:200].decode("utf-8", "replace")})
                    continue
                got = frozenset(impl["out"].split(b"\0")[:-1])
                want = ev(f, sets, universe)
                if got != want:
                    ctx.oracle_fail("rows of the formula differ from the set algebra over its atoms", case,
                                    detail={"extra": sorted(x.decode() for x in got - want)[:5], "missing": sorted(x.decode() for x in want - got)[:5]})
                ctx.hist("formula_top", f[0])
                ctx.sample({"argv": [q], "rows": len(got)}, every=53)
    finally:
        common.rm_tree(scratch)
