"""C14: size literals and size formatting follow the documented unit tables."""
import itertools
import re
from fractions import Fraction

import common
import corr
import fstree
import oracle

RULE = ("every documented unit suffix in every letter case x integers and decimal fractions (fixed edge cases: one ulp "
        "below a whole number in f64, 38/39 fraction digits, more digits than u128, leading + and zeros; plus random "
        "ones) x comparison against "
        "(sparse) file sizes at multiplier*n-1, multiplier*n, multiplier*n+1; every specifier string of the grammar "
        "(precision none/0..3) x (space or not) x (subsets of c, d, s) x (unit none, b, k, kb, kib, ... tb) x sizes on "
        "a logarithmic grid with +-1 neighbours; (a) in-process parse_filesize/format_filesize vs the Lean model at "
        "volume and CLI runs vs the model, (b) oracles: the documentation's multiplier table; rendering is monotone "
        "in the size and parses back to the original within the displayed precision. distinct = distinct literal or "
        "(specifier, size); nontrivial = all")

UNITS = oracle.UNITS


def case_variants(u):
    if not u:
        return [""]
    return sorted(set("".join(p) for p in itertools.product(*[(c.lower(), c.upper()) for c in u])))


def run(ctx):
    quick = ctx.tier == "quick"
    r = ctx.rng
    # (1) literals in-process: model vs implementation vs documentation
    lits = []
    for u in UNITS:
        for cv in case_variants(u):
            for n in ([0, 1, 2, 7, 10, 1023, 1024, 1025, 4095, 65536, 999999] if not quick else [1, 7, 1024, 1025]):
                lits.append(("%d%s" % (n, cv), n * UNITS[u]))
            if u == "b" or not u:
                for q in ["0.5", "1.5", "3.", ".5", "4.1"]:
                    lits.append((q + cv, "none"))            # whole numbers only
                continue
            fr = ["0.5", "1.5", "2.25", "0.125", "3.", ".5", "0.1", "0.3", "1.2", "2.7", "0.07", "1.005", "1.001", "4.1", "8.2",
                  "2.05", "16.9", "+1.5", "0.0009", "00.50", "1.0000000000000000000000001", "18446744073709551615.9",
                  "0.%s1" % ("0" * 37), "0.%s1" % ("0" * 38)]
            fr += ["%d.%s" % (r.below(100), "".join(r.choice("0123456789") for _ in range(r.range(1, 6)))) for _ in range(6 if quick else 60)]
            for q in fr:
                lits.append((q + cv, ("exact", q, UNITS[u])))
    extra = ["", "k", "1x", "1kk", "1 k", " 1 kb ", "1e3k", "-1k", "+5", "18446744073709551615", "18446744073709551616",
             "18446744073709551615b", "99999999999999999999k", "1.5", "1b5", "0x10", "1_000", "١k", "infk", "nank", "1kB ", "1K B"]
    for s in extra:
        lits.append((s, None))
    n_mis = 0
    if ctx.harness_ok and ctx.model_ok:
        for s, want in lits:
            ctx.case(("lit", s))
            ctx.distinct.add(("lit", s))
            a = ctx.model.ask("fn\tparse_filesize", s)
            b = ctx.harness.ask("parse_filesize", s)
            doc = None
            if isinstance(want, tuple):
                # the documentation: number x multiplier, rounded down to whole bytes (u64 at most)
                doc = min(int(Fraction(want[1].lstrip("+")) * want[2]), 2 ** 64 - 1)
            if a.startswith("some~"):
                # decimal fraction that is no dyadic rational: the f64 product may differ in the last unit
                ctx.count("inexact_literal")
                mv = int(a.split(" ")[1])
                if not b.startswith("some ") or abs(int(b.split(" ")[1]) - mv) > 1:
                    ctx.disagree("parseFilesize (model, within 1 byte) = parse_filesize (implementation)", {"literal": s}, a, b)
                # beyond what `scale_size` scales in integers (more than 38 fraction digits or more digits than u128
                # holds): the f64 route, documented value within one byte per 2^53
                if doc is not None and (not b.startswith("some ") or abs(int(b.split(" ")[1]) - doc) > max(1, doc >> 52)):
                    ctx.oracle_fail("fractional size literal does not denote number x documented multiplier (rounded down)",
                                    {"literal": s, "level": "in-process parse_filesize"}, detail={"got": b, "want": doc})
                continue
            if isinstance(want, tuple):
                want = doc
                ctx.count("fractional_literal")
            if want == "none":
                want = None
                if b != "none":
                    ctx.oracle_fail("the unit `b` takes whole numbers only", {"literal": s, "level": "in-process parse_filesize"}, detail={"got": b})
            if a != b:
                ctx.disagree("parseFilesize (model) = parse_filesize (implementation)", {"literal": s}, a, b)
            if want is not None and b != "some %d" % want:
                ctx.oracle_fail("size literal does not denote number x documented multiplier", {"literal": s, "level": "in-process parse_filesize"},
                                detail={"got": b, "want": want})
        ctx.sample({"literal": "10KiB", "impl": ctx.harness.ask("parse_filesize", "10KiB")})
    else:
        ctx.notes.append("in-process literal sweep skipped (harness unavailable)")
    # (2) literals at the CLI: comparison against sparse file sizes around multiplier*n
    scratch = common.new_scratch()
    try:
        units = list(UNITS) if not quick else r.sample(list(UNITS), 6)
        for u in units:
            n = r.choice([1, 2, 3])
            base = n * UNITS[u]
            if base > 2 ** 44:
                n, base = 1, UNITS[u]
            ents = [{"path": "s%d" % i, "kind": "f", "size": max(0, base + d), "sparse": True, "mode": 0o644, "mtime": 1700000000}
                    for i, d in enumerate([-1, 0, 1])]
            snap = corr.Snap(scratch, ents, subdir="u_" + (u or "none"), content_facts=False)
            for cv in (case_variants(u) if not quick else r.sample(case_variants(u), min(2, len(case_variants(u))))):
                lit = "%d%s" % (n, cv)
                for op, f in [("=", lambda s: s == base), (">", lambda s: s > base), ("<=", lambda s: s <= base), ("!=", lambda s: s != base)]:
                    q = "select size from . where size %s %s into list" % (op, lit)
                    ctx.case(("cli", q))
                    ctx.distinct.add(("cli", q))
                    m, impl = corr.run_case(ctx, snap, [q], fmt="list", ncols=1)
                    got = sorted(int(x) for x in impl["out"].split(b"\0")[:-1]) if impl["status"] == 0 else None
                    want = sorted(e["size"] for e in ents if f(e["size"]))
                    if got != want:
                        ctx.oracle_fail("size OP literal is not the numeric comparison with number x multiplier", {"argv": [q]},
                                        detail={"got": got, "want": want, "status": impl["status"]})
            common.rm_tree(snap.root)
        # (2b) fractional literals at the CLI (incl. the ones whose f64 product lands one ulp below the whole number)
        fr = [("4.1mb", 4100000), ("1.001kb", 1001), ("0.5k", 512), ("2.05GB", 2050000000), ("16.9tb", 16900000000000), ("1.5MiB", 1572864),
              ("0.07k", 71), ("8.2Mb", 8200000)]
        for lit, base in (fr if not quick else r.sample(fr, 3) + fr[:1]):
            ents = [{"path": "s%d" % i, "kind": "f", "size": base + d, "sparse": True, "mode": 0o644, "mtime": 1700000000}
                    for i, d in enumerate([-1, 0, 1])]
            snap = corr.Snap(scratch, ents, subdir="fr_" + lit.replace(".", "_"), content_facts=False)
            for op, f in [("=", lambda s: s == base), (">=", lambda s: s >= base), ("<", lambda s: s < base)]:
                q = "select size from . where size %s %s into list" % (op, lit)
                ctx.case(("cli", q))
                ctx.distinct.add(("cli", q))
                m, impl = corr.run_case(ctx, snap, [q], fmt="list", ncols=1)
                got = sorted(int(x) for x in impl["out"].split(b"\0")[:-1]) if impl["status"] == 0 else None
                want = sorted(e["size"] for e in ents if f(e["size"]))
                if got != want:
                    ctx.oracle_fail("size OP fractional literal is not the numeric comparison with number x multiplier (rounded down)", {"argv": [q]},
                                    detail={"got": got, "want": want, "status": impl["status"]})
            common.rm_tree(snap.root)
        # (3) formatting: specifier grammar x size grid, in-process
        precs = ["", "%.0", "%.1", "%.2", "%.3"]
        spaces = ["", " "]
        flags = ["", "c", "d", "s", "cs", "ds", "cd"]
        funits = ["", "b", "k", "kb", "kib", "m", "mb", "mib", "g", "gb", "gib", "t", "tb", "tib"]
        grid = sorted(set(x for k in range(0, 45, 3) for x in (2 ** k - 1, 2 ** k, 2 ** k + 1) if x >= 0) |
                      set(x for k in range(0, 13, 2) for x in (10 ** k - 1, 10 ** k, 10 ** k + 1, 15 * 10 ** k)))
        specs = [p + sp + fl + un for p in precs for sp in spaces for fl in flags for un in funits]
        if quick:
            specs = r.sample(specs, 120)
            grid = r.sample(grid, 14) + [0, 1, 1023, 1024, 1536, 1000, 999]
        if ctx.harness_ok and ctx.model_ok:
            for spec in specs:
                prev = None
                for size in sorted(grid):
                    ctx.case(("fmt", spec, size))
                    ctx.distinct.add(("fmt", spec, size))
                    a = ctx.model.ask("fn\tformat_filesize", str(size), spec)
                    b = ctx.harness.ask("format_filesize", str(size), spec)
                    if b.startswith("died"):
                        # error_exit inside the harness: the specifier is rejected (status 2); the model must say so too
                        if a != "exit2":
                            ctx.disagree("formatFilesize rejects what format_filesize rejects", {"size": size, "spec": spec}, a, b)
                        break
                    text = common.unhx(b).decode()
                    if a.startswith("ok "):
                        if a[3:] != b:
                            ctx.disagree("formatFilesize (model) = format_filesize (implementation)", {"size": size, "spec": spec},
                                         common.unhx(a[3:]).decode() if a[3:] != "-" else "", text)
                    elif a.startswith("ok~"):
                        ctx.count("inexact_render")
                    else:
                        ctx.disagree("formatFilesize (model) = format_filesize (implementation)", {"size": size, "spec": spec}, a, text)
                    # oracle: parse the rendering back and compare within the displayed precision; monotone
                    mnum = re.match(r"^([0-9]+(?:\.[0-9]+)?) ?([A-Za-z]*)$", text)
                    if not mnum:
                        ctx.oracle_fail("rendered size is not <number><unit>", {"size": size, "spec": spec, "level": "in-process format_filesize"}, detail={"text": text})
                        continue
                    num = float(mnum.group(1))
                    unit = mnum.group(2)
                    # the specifier grammar: `%.N` fixes the number of decimals; a blank in the specifier puts one blank
                    # between number and unit, no blank means none
                    mspec = re.match(r"^(?:%\.(\d+))?(\s?)(\w*)$", spec)
                    if mspec and unit:
                        want_space = mspec.group(2) != ""
                        has_space = " " in text
                        if want_space != has_space:
                            ctx.oracle_fail("the blank between number and unit does not follow the specifier",
                                            {"size": size, "spec": spec, "level": "in-process format_filesize"}, detail={"text": text})
                    # (whole bytes are printed without decimals whatever N is)
                    if mspec and mspec.group(1) is not None and int(mspec.group(1)) <= 15 and unit not in ("", "B"):
                        dec = len(mnum.group(1).split(".")[1]) if "." in mnum.group(1) else 0
                        # (a value that is a whole number of units is printed without decimals)
                        if dec not in (0, int(mspec.group(1))):
                            ctx.oracle_fail("the number of decimals does not follow `%.N`",
                                            {"size": size, "spec": spec, "level": "in-process format_filesize"}, detail={"text": text})
                    decimal = "d" in spec.split(" ")[-1] and not spec.endswith("b") or unit in ("kB", "KB") and False
                    scale = {"": 0, "B": 0, "K": 1, "KB": 1, "KiB": 1, "M": 2, "MB": 2, "MiB": 2, "G": 3, "GB": 3, "GiB": 3,
                             "T": 4, "TB": 4, "TiB": 4, "P": 5, "PB": 5, "PiB": 5, "E": 6, "EB": 6, "EiB": 6}.get(unit)
                    if scale is None:
                        ctx.oracle_fail("unknown unit in rendering", {"size": size, "spec": spec}, detail={"text": text})
                        continue
                    # without a fixed unit the unit is the largest one not exceeding the size, in the base the
                    # specifier selects: decimal (1000) with `d`, binary (1024) otherwise
                    mfl = re.match(r"^(?:%\.\d+)?\s?([cds]*)$", spec)
                    if mfl is not None and size > 0:
                        ubase = 1000 if "d" in (mfl.group(1) or "") else 1024
                        want_scale = 0
                        while ubase ** (want_scale + 1) <= size:
                            want_scale += 1
                        if scale != want_scale:
                            ctx.oracle_fail("the unit is not the largest one not exceeding the size in the specifier's base",
                                            {"size": size, "spec": spec, "level": "in-process format_filesize"},
                                            detail={"text": text, "base": ubase, "expected_power": want_scale})
                    # the short-unit flag `s`: the unit is its first letter only (K, M, G …), whatever the base and
                    # whether the unit is chosen or fixed
                    mfs = re.match(r"^(?:%\.\d+)?\s?([cds]*)(\w*)$", spec)
                    if mfs is not None and "s" in (mfs.group(1) or "") and unit not in ("", "B") and len(unit) != 1:
                        ctx.oracle_fail("the short-unit flag `s` is not honoured", {"size": size, "spec": spec, "level": "in-process format_filesize"},
                                        detail={"text": text})
                    places = len(mnum.group(1).split(".")[1]) if "." in mnum.group(1) else 0
                    ok_any = False
                    for basev in (1024, 1000):
                        approx = num * basev ** scale
                        tol = 0.5000001 * 10 ** (-places) * basev ** scale + 1e-9
                        if abs(approx - size) <= tol:
                            ok_any = True
                    # the base is the specifier's: `d` divides by 1000, `c` (without `d`) by 1024 whatever the unit is called
                    if mfs is not None and scale and ("d" in (mfs.group(1) or "") or "c" in (mfs.group(1) or "")):
                        fb = 1000 if "d" in mfs.group(1) else 1024
                        if abs(num * fb ** scale - size) > 0.5000001 * 10 ** (-places) * fb ** scale + 1e-9:
                            ctx.oracle_fail("the value shown is not the size divided in the base the specifier's flag selects",
                                            {"size": size, "spec": spec, "level": "in-process format_filesize"}, detail={"text": text, "base": fb})
                    if not ok_any:
                        ctx.oracle_fail("rendering does not parse back to the size within the displayed precision",
                                        {"size": size, "spec": spec, "level": "in-process format_filesize"}, detail={"text": text})
                    if prev is not None and scale is not None:
                        pnum, pscale, pbase = prev
                        if (scale, num) < (pscale, pnum) and scale == pscale:
                            ctx.oracle_fail("rendering is not monotone in the size", {"size": size, "spec": spec}, detail={"text": text, "previous": prev})
                    prev = (num, scale, None)
            ctx.sample({"spec": "%.1 k", "size": 1536, "impl": common.unhx(ctx.harness.ask("format_filesize", "1536", "%.1 k")).decode()})
        # CLI spot checks of fsize / format_size against the model
        snap = corr.Snap(scratch, [{"path": "f%d" % i, "kind": "f", "size": s, "sparse": True, "mode": 0o644, "mtime": 1700000000}
                                   for i, s in enumerate([0, 1, 1023, 1024, 1536, 10 ** 6, 2 ** 30 + 1, 5 * 10 ** 9])], subdir="fmt", content_facts=False)
        for spec in (r.sample(specs, 25) + ["", "%.1 s", "kb", "%.3 dgb"]):
            q = "select size, format_size(size, '%s') from . into list" % spec
            ctx.case(("cli-fmt", spec))
            corr.run_case(ctx, snap, [q], fmt="list", ncols=2)
        q = "select size, fsize from . into list"
        ctx.case(("cli-fmt", "fsize"))
        corr.run_case(ctx, snap, [q], fmt="list", ncols=2)
        common.rm_tree(snap.root)
    finally:
        common.rm_tree(scratch)
