"""C01: traversal is exact: every entry in the depth window, once, nothing else."""
import os

import common
import corr
import fstree
import gen

RULE = ("random trees (<= 40 entries quick / <= 400 thorough, depth <= 6; regular files, empty directories, symlinks to "
        "file/dir/dangling, FIFOs, UNIX sockets, dot-files, adversarial names, directory names with backslashes) x roots (., relative, absolute, 1-3 "
        "disjoint roots) x mindepth/maxdepth in 0..depth+2 x {bfs, dfs}; thorough adds every tree shape with <= 6 nodes. "
        "(a) `path ... into list` vs the Lean model: exact sequence (the snapshot carries the readdir order), "
        "(b) oracle: os.walk(followlinks=False) gives the expected multiset for the window; bfs: no entry precedes one "
        "of smaller depth of the same root; dfs: every directory is immediately followed by its subtree. "
        "distinct = (tree, argv); nontrivial = the window cuts the tree (some but not all entries)")


def expected(root_abs, spelled, mind, maxd):
    """entries (as fselect prints them) with nesting level in the window, via os.walk without following links"""
    out = []
    base = spelled.rstrip("/") if spelled != "/" else ""
    for dirpath, dirnames, filenames in os.walk(root_abs, followlinks=False):
        rel = os.path.relpath(dirpath, root_abs)
        level = 1 if rel == "." else rel.count("/") + 2
        for nm in dirnames + filenames:
            ok = (mind == 0 or level >= mind) and (maxd == 0 or level <= maxd)
            if ok:
                p = (base if rel == "." else base + "/" + rel) + "/" + nm
                out.append((p, level))
    return out


def level_of(path, spelled):
    base = spelled.rstrip("/")
    rest = path[len(base) + 1:]
    return rest.count("/") + 1


def all_small_trees(n):
    """every forest shape with exactly n nodes as entry specs (dirs and files)"""
    res = []

    def build(k, prefix, counter):
        # returns list of (entries, used_nodes)
        if k == 0:
            return [[]]
        out = []
        for first in range(1, k + 1):
            # first node takes `first` nodes total (itself + subtree of first-1)
            for sub in build(first - 1, prefix + "d%d/" % counter[0], [counter[0] + 1]):
                for rest in build(k - first, prefix, [counter[0] + 100]):
                    name = prefix + "d%d" % counter[0]
                    if first == 1:
                        out.append([{"path": name, "kind": "f", "size": 1, "mode": 0o644, "mtime": 1700000000}] + rest)
                        out.append([{"path": name, "kind": "d", "mode": 0o755, "mtime": 1700000000}] + rest)
                    else:
                        out.append([{"path": name, "kind": "d", "mode": 0o755, "mtime": 1700000000}] + sub + rest)
        return out
    return build(n, "", [0])


def check_case(ctx, snap, scratch, roots, mind, maxd, trav, t):
    opts = ""
    if maxd is not None:
        opts += " depth %d" % maxd
    if mind is not None:
        opts += " mindepth %d" % mind
    if trav:
        opts += " " + trav
    spelled = [gen.quote_path(r) for r in roots]
    if any(s is None for s in spelled):
        return
    q = "select path from " + ", ".join(s + opts for s in spelled) + " into list"
    ctx.case((t, q))
    m, impl = corr.run_case(ctx, snap, [q], fmt="list", ncols=1)
    case = {"argv": [q], "tree": [n["rel"] + ("/" if n["kind"] == "d" else "@" if n["kind"] == "l" else "") for n in snap.nodes][:60]}
    if impl["status"] != 0 or impl["err"] != b"":
        ctx.oracle_fail("fault-free traversal must exit 0 with empty stderr", case,
                        detail={"status": impl["status"], "err": impl["err"][:200].decode("utf-8", "replace")})
        return
    got = [x.decode("utf-8", "surrogateescape") for x in impl["out"].split(b"\0")[:-1]]
    want = []
    per_root = []
    for r in roots:
        root_abs = r if r.startswith("/") else os.path.normpath(os.path.join(snap.root, r))
        ex = expected(root_abs, r, mind or 0, maxd or 0)
        want += [p for p, _ in ex]
        per_root.append((r, ex))
    total = sum(len(expected(r if r.startswith("/") else os.path.normpath(os.path.join(snap.root, r)), r, 0, 0)) for r in roots)
    if 0 < len(want) < total:
        ctx.distinct.add((t, q, "nt"))
    if sorted(got) != sorted(want):
        ctx.oracle_fail("rows are not exactly the entries in the depth window (each once)", case,
                        detail={"extra": sorted(set(got) - set(want))[:5], "missing": sorted(set(want) - set(got))[:5],
                                "got": len(got), "want": len(want)})
        return
    # order predicates, per root (roots are processed one after the other)
    pos = 0
    for r, ex in per_root:
        seg = got[pos:pos + len(ex)]
        pos += len(ex)
        levels = [level_of(p, r) for p in seg]
        if trav != "dfs":
            if any(levels[i] > levels[i + 1] for i in range(len(levels) - 1)):
                ctx.oracle_fail("bfs: an entry precedes an entry of smaller depth", case, detail={"levels": levels[:40]})
        else:
            # every directory is immediately followed by its whole subtree
            for i, pth in enumerate(seg):
                sub = [j for j, x in enumerate(seg) if x.startswith(pth + "/")]
                if sub and sub != list(range(i + 1, i + 1 + len(sub))):
                    ctx.oracle_fail("dfs: a directory is not immediately followed by its whole subtree", case, detail={"dir": pth})
                    break
    ctx.sample({"argv": [q], "rows": len(got)}, every=43)


def run(ctx):
    quick = ctx.tier == "quick"
    ntrees = 30 if quick else 250
    per_tree = 10 if quick else 30
    scratch = common.new_scratch()
    try:
        for t in range(ntrees):
            r = ctx.rng.fork()
            ents = fstree.gen_tree(r, max_entries=r.choice([5, 15, 40] if quick else [5, 40, 150, 400]), max_depth=r.choice([2, 4, 6]),
                                   kinds="fdlps", adversarial=r.chance(1, 3))
            if r.chance(1, 2):
                # a backslash is an ordinary character of a name here: it must not count as a level
                have = {e["path"] for e in ents}
                if "b\\s" not in have:
                    for pth, kind in [("b\\s", "d"), ("b\\s/in\\ner\\x", "d"), ("b\\s/in\\ner\\x/leaf.txt", "f"), ("b\\s/in\\ner\\x/deep", "d"),
                                      ("b\\s/in\\ner\\x/deep/f\\1", "f"), ("b\\s/top.txt", "f")]:
                        ents.append({"path": pth, "kind": kind, "mode": 0o755 if kind == "d" else 0o644, "mtime": 1700000000,
                                     **({"size": 1} if kind == "f" else {})})
            snap = corr.Snap(scratch, ents, subdir="t%d" % t, content_facts=False)
            dirs = [n["rel"] for n in snap.nodes if n["kind"] == "d" and "\\" not in n["rel"]]
            maxlevel = max([n["depth"] for n in snap.nodes] + [1])
            for _ in range(per_tree):
                k = r.below(10)
                if k < 5 or not dirs:
                    roots = [r.choice([".", "./", snap.root])]
                elif k < 8:
                    d = r.choice(dirs)
                    roots = [r.choice([d, "./" + d, os.path.join(snap.root, d)])]
                else:
                    # several disjoint roots: directories none of which contains another
                    cand = r.shuffle(dirs)
                    chosen = []
                    for d in cand:
                        if all(not (d + "/").startswith(c + "/") and not (c + "/").startswith(d + "/") for c in chosen):
                            chosen.append(d)
                        if len(chosen) == 3:
                            break
                    roots = [r.choice([d, "./" + d]) for d in chosen] or ["."]
                # a root spelled with a leading `~` is expanded to the home directory (documented): spell it `./~x`
                roots = [("./" + x) if x.startswith("~") else x for x in roots]
                mind = r.choice([None, None, 0, 1, 2, 3, maxlevel + 1])
                maxd = r.choice([None, None, 0, 1, 2, 3, maxlevel, maxlevel + 2])
                trav = r.choice(["", "bfs", "dfs", "dfs"])
                ctx.hist("roots", len(roots))
                ctx.hist("traversal", trav or "default")
                check_case(ctx, snap, scratch, roots, mind, maxd, trav, t)
            common.rm_tree(snap.root)
        # the root directory `/` as search root (implementation against os.listdir; the model's snapshot never holds `/`,
        # the model side of this case is the theorem root_slash_child_level): level 1 is what is directly inside `/`
        for trav in ("", "bfs", "dfs"):
            for q, want in (("select path from / depth 1 %s into list" % trav, {"/" + n for n in os.listdir("/")}),
                            ("select path from / mindepth 2 maxdepth 2 %s where path like '/etc/%%' into list" % trav,
                             {"/etc/" + n for n in os.listdir("/etc")}),
                            ("select path from / mindepth 1 maxdepth 2 %s where path like '/etc%%' into list" % trav,
                             {"/etc"} | {"/etc/" + n for n in os.listdir("/etc")} | {"/" + n for n in os.listdir("/") if n.startswith("etc")})):
                ctx.case(("root-slash", q))
                ctx.count("root_slash_queries")
                res = common.run_cli([q], cwd=scratch, scratch=scratch, timeout=60)
                got = [x.decode("utf-8", "replace") for x in res["out"].split(b"\0")[:-1]]
                if sorted(got) != sorted(want):
                    ctx.oracle_fail("under the root `/` the depth window is off", {"argv": [q], "cwd": "/"},
                                    detail={"missing": sorted(want - set(got))[:5], "extra": sorted(set(got) - want)[:5], "rows": len(got)})
        # a very deep tree: the clauses hold at every level, however deep (no level is special)
        for t in range(1 if quick else 4):
            r = ctx.rng.fork()
            depth = r.choice([204, 230, 265])
            ents, cur = [], ""
            for lv in range(depth):
                cur = (cur + "/" if cur else "") + r.choice(["d", "e", "n%d" % (lv % 7)])
                ents.append({"path": cur, "kind": "d", "mode": 0o755, "mtime": 1700000000})
                if lv % 9 == 0 or lv > depth - 12:
                    ents.append({"path": cur + "/f%d.txt" % lv, "kind": "f", "size": 1, "mode": 0o644, "mtime": 1700000000})
                if lv % 50 == 49 or lv > depth - 8:
                    ents.append({"path": cur + "/side", "kind": "d", "mode": 0o755, "mtime": 1700000000})
                    ents.append({"path": cur + "/side/g.txt", "kind": "f", "size": 2, "mode": 0o644, "mtime": 1700000000})
            snap = corr.Snap(scratch, ents, subdir="deep%d" % t, content_facts=False)
            for trav in ("dfs", "bfs", ""):
                for mind, maxd in ((None, None), (depth - 6, None), (None, depth - 3), (198, 203)):
                    ctx.count("deep_chain_queries")
                    check_case(ctx, snap, scratch, ["."], mind, maxd, trav, "deep%d" % t)
            common.rm_tree(snap.root)
        if not quick:
            shapes = []
            for n in range(1, 6):
                shapes += all_small_trees(n)
            for i, ents in enumerate(shapes):
                snap = corr.Snap(scratch, ents, subdir="s%d" % i, content_facts=False)
                for mind in (None, 1, 2, 3):
                    for maxd in (None, 1, 2, 3):
                        for trav in ("bfs", "dfs"):
                            check_case(ctx, snap, scratch, ["."], mind, maxd, trav, "shape%d" % i)
                common.rm_tree(snap.root)
    finally:
        common.rm_tree(scratch)
