"""C08: GROUP BY partitions the matching entries; per-group aggregates are exact."""
import collections

import common
import corr
import fstree
from props.C07 import expect, close

RULE = ("random trees x grouping keys from ext, dir, is_dir, mode, uid, length(name) and pairs x aggregate lists "
        "x optional WHERE x optional ORDER BY on key or aggregate; every fourth query leaves some or all keys out of the select list; (a) CLI output vs the Lean model (rows as a multiset "
        "unless ORDER BY), (b) oracle: groups recomputed in Python from the ungrouped rows: one row per distinct key, "
        "counts/sums add up, each group's aggregates equal those of its fibre, ORDER BY sorts the group rows. "
        "distinct = (tree, argv); nontrivial = >= 2 groups")

GKEYS = ["ext", "dir", "is_dir", "mode", "uid", "length(name)"]
AGGS = ["count", "sum", "min", "max", "avg"]


def run(ctx):
    quick = ctx.tier == "quick"
    ntrees = 20 if quick else 200
    per_tree = 10 if quick else 30
    scratch = common.new_scratch()
    try:
        for t in range(ntrees):
            r = ctx.rng.fork()
            ents = fstree.gen_tree(r, max_entries=r.choice([4, 12, 30]), kinds="fdl")
            if t % 4 == 1:
                # key tuples that read alike when written one after the other: (dir, ext) = (./a, b) and (./ab, ""),
                # (ext, length(name)) = (c1, 4) and (c, 14), (length(name), ext) = (1, 2x) ~ (12, x), (uid, length) ...
                have = {e["path"] for e in ents}
                if "kk" not in have:
                    ents.append({"path": "kk", "kind": "d", "mode": 0o755, "mtime": 1700000000})
                    for pth, kind in [("a", "d"), ("ab", "d"), ("a/x.b", "f"), ("ab/y", "f"), ("ab/z.b", "f"), ("x.c1", "f"),
                                      ("aaaaaaaaaaaa.c", "f"), ("q.2x", "f"), ("qqqqqqqqqq.x", "f"), ("a/1", "f"), ("a1", "d")]:
                        ents.append({"path": "kk/" + pth, "kind": kind, "mode": 0o755 if kind == "d" else 0o644, "mtime": 1700000000,
                                     **({"size": r.choice([1, 2, 5])} if kind == "f" else {})})
                ents.sort(key=lambda e: (e["path"].count("/"), e["path"]))
            if t % 4 == 2:
                # a key column that mixes numbers and text (extensions 9, 10, 7z, 2b, 100, 1e1): ORDER BY over the group rows
                # needs one consistent order for them — numbers by value first, then the rest as text
                have = {e["path"] for e in ents}
                for k, ext in enumerate(["9", "10", "7z", "100", "2b", "1e1", "a", "05", "5", "txt"] * 3):
                    pth = "mix%d.%s" % (k, ext)
                    if pth not in have:
                        ents.append({"path": pth, "kind": "f", "size": r.choice([1, 2, 5]), "mode": 0o644, "mtime": 1700000000})
            snap = corr.Snap(scratch, ents, subdir="t%d" % t)
            for _ in range(per_tree):
                gk = r.sample(GKEYS, r.range(1, 2))
                aggs = r.sample(AGGS, r.range(1, 3))
                # the aggregated expression: a plain column, or computed per entry
                arg = r.choice(["size", "size", "length(name)", "size + 1", "size * 2 + hardlinks"])
                where = r.choice(["", "", " where size > 0", " where is_file = true"])
                order = ""
                ordspec = None
                if r.chance(1, 3):
                    # one or two ORDER BY terms, each with its own direction
                    ois = r.sample(list(range(len(gk) + len(aggs))), min(len(gk) + len(aggs), r.range(1, 2)))
                    ordspec = [(oi, r.chance(1, 2)) for oi in ois]
                # every fourth query does not select (all of) its keys: the partition is by the GROUP BY list all the same
                hidden = r.chance(1, 4)
                if hidden:
                    aggs = [a for a in aggs if a != "avg"] or ["count"]
                    ordspec = None
                    shown = r.sample(gk, r.range(0, len(gk) - 1))
                    shown = [k for k in gk if k in shown]
                    hq = "select %s from .%s group by %s into list" % (", ".join(shown + ["%s(%s)" % (a, arg) for a in aggs]), where, ", ".join(gk))
                    hqrows = "select %s, %s from .%s into list" % (", ".join(gk), arg, where)
                    ctx.case((t, hq))
                    hw = len(shown) + len(aggs)
                    m, himpl = corr.run_case(ctx, snap, [hq], fmt="list", ncols=hw)
                    hr = common.run_cli([hqrows], cwd=snap.root, scratch=scratch)
                    hcase = {"argv": [hq], "rows_argv": [hqrows], "tree": [n["rel"] for n in snap.nodes][:40]}
                    if himpl["status"] != 0 or hr["status"] != 0:
                        ctx.oracle_fail("grouped query failed", hcase, detail={"status": himpl["status"], "err": himpl["err"][:200].decode("utf-8", "replace")})
                        continue
                    hv = hr["out"].split(b"\0")[:-1]
                    hn = len(gk) + 1
                    hgroups = collections.OrderedDict()
                    for i in range(0, len(hv), hn):
                        hgroups.setdefault(tuple(hv[i:i + len(gk)]), []).append(int(hv[i + len(gk)]))
                    wantrows = sorted(tuple(k[gk.index(c)] for c in shown) + tuple(str(expect(a, xs)).encode() for a in aggs)
                                      for k, xs in hgroups.items())
                    hg = himpl["out"].split(b"\0")[:-1]
                    gotrows = sorted(tuple(hg[i:i + hw]) for i in range(0, len(hg), hw))
                    if len(hgroups) >= 2:
                        ctx.distinct.add((t, hq, "nt"))
                    ctx.count("queries_with_unselected_keys")
                    if gotrows != wantrows:
                        ctx.oracle_fail("grouping by a key that is not selected: rows are not one per distinct key with its fibre's aggregates", hcase,
                                        detail={"groups_got": len(gotrows), "groups_want": len(wantrows),
                                                "got": [[c.decode("utf-8", "replace") for c in rw] for rw in gotrows[:4]],
                                                "want": [[c.decode("utf-8", "replace") for c in rw] for rw in wantrows[:4]]})
                    continue
                sel_items = gk + ["%s(%s)" % (a, arg) for a in aggs]
                if ordspec:
                    order = " order by " + ", ".join("%s%s" % (sel_items[oi], " desc" if desc else "") for oi, desc in ordspec)
                # every fifth query names two disjoint roots: a key value met under both roots is still ONE group
                roots = "."
                top_dirs = [n["rel"] for n in snap.nodes if n["kind"] == "d" and "/" not in n["rel"] and all(ch.isalnum() or ch in "._-" for ch in n["rel"])]
                if len(top_dirs) >= 2 and r.chance(1, 5) and "dir" not in gk:
                    two = r.sample(top_dirs, 2)
                    roots = "./%s, ./%s" % (two[0], two[1])
                    ctx.count("two_root_grouped_queries")
                q = "select %s from %s%s group by %s%s into list" % (", ".join(sel_items), roots, where, ", ".join(gk), order)
                qrows = "select %s, %s from %s%s into list" % (", ".join(gk), arg, roots, where)
                ctx.case((t, q))
                m, impl = corr.run_case(ctx, snap, [q], fmt="list", ncols=len(sel_items))
                rr = common.run_cli([qrows], cwd=snap.root, scratch=scratch)
                case = {"argv": [q], "rows_argv": [qrows], "tree": [n["rel"] for n in snap.nodes][:40]}
                if impl["status"] != 0 or rr["status"] != 0:
                    ctx.oracle_fail("grouped query failed", case, detail={"status": impl["status"], "err": impl["err"][:200].decode("utf-8", "replace")})
                    continue
                vals = rr["out"].split(b"\0")[:-1]
                n = len(gk) + 1
                groups = collections.OrderedDict()
                for i in range(0, len(vals), n):
                    key = tuple(vals[i:i + len(gk)])
                    groups.setdefault(key, []).append(int(vals[i + len(gk)]))
                got = impl["out"].split(b"\0")[:-1]
                w = len(sel_items)
                rows = [got[i:i + w] for i in range(0, len(got), w)]
                if len(groups) >= 2:
                    ctx.distinct.add((t, q, "nt"))
                ctx.hist("groups", min(len(groups), 20))
                if sorted(tuple(x[:len(gk)]) for x in rows) != sorted(groups.keys()):
                    ctx.oracle_fail("group rows are not one per distinct key value", case,
                                    detail={"got": len(rows), "want": len(groups)})
                    continue
                for row in rows:
                    xs = groups[tuple(row[:len(gk)])]
                    for a, cell in zip(aggs, row[len(gk):]):
                        wv = expect(a, xs)
                        ok = (cell.decode() == str(wv)) if isinstance(wv, int) else close(cell.decode(), wv)
                        if not ok:
                            ctx.oracle_fail("group aggregate %s = %s, expected %s" % (a, cell.decode(), wv), case,
                                            detail={"key": [k.decode("utf-8", "replace") for k in row[:len(gk)]], "values": xs[:20]})
                if "count" in aggs:
                    ci = len(gk) + aggs.index("count")
                    if sum(int(rw[ci]) for rw in rows) != sum(len(v) for v in groups.values()):
                        ctx.oracle_fail("group COUNTs do not add up", case)
                if ordspec:
                    def keyf(c):
                        # numbers (integers, and the fractions AVG / variances give) by value and before anything else, the rest as text (D80)
                        try:
                            return (0, int(c))
                        except ValueError:
                            pass
                        try:
                            return (0, float(c))
                        except ValueError:
                            return (1, c)
                    # every adjacent pair of rows is in order under the key list: the first term that tells them apart
                    # decides, in its own direction
                    for i in range(len(rows) - 1):
                        verdict = 0
                        for oi, desc in ordspec:
                            ka, kb = keyf(rows[i][oi]), keyf(rows[i + 1][oi])
                            if ka == kb:
                                if rows[i][oi] == rows[i + 1][oi]:
                                    continue
                                break       # two spellings of one number (10, 1e1): different cells, either order is sorted
                            verdict = (1 if ka < kb else -1) * (-1 if desc else 1)
                            break
                        if verdict < 0:
                            ctx.oracle_fail("ORDER BY does not sort the group rows", case,
                                            detail={"order_by": order.strip(), "rows": [[c.decode("utf-8", "replace") for c in rw] for rw in rows[i:i + 2]]})
                            break
                ctx.sample({"argv": [q], "groups": len(groups)}, every=37)
            common.rm_tree(snap.root)
    finally:
        common.rm_tree(scratch)
