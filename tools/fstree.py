"""Materialise generated trees on disk and read them back as snapshots (the model's view of the OS)."""
import hashlib
import os
import socket
import stat
import time

from common import Rng

SAFE_ALPHA = "abcdefghij"
NAME_POOL = ["a", "b", "c", "d", "e", "f", "src", "lib", "doc", "x1", "x2", "readme", "main", "test", "data"]
EXT_POOL = ["", "", ".txt", ".rs", ".md", ".c", ".zip", ".TXT", ".tar.gz", ".jpg", ".pdf", ".bin"]
ADV_CHARS = list(" +()[]{}|^$-,'#~.&<>\"=!%;@") + ["é", "ж", "日", "\t"]


def gen_name(rng, adversarial=False, used=None):
    for _ in range(50):
        base = rng.choice(NAME_POOL)
        if rng.chance(1, 3):
            base += str(rng.below(30))
        if adversarial and rng.chance(1, 2):
            pos = rng.below(len(base) + 1)
            ch = rng.choice(ADV_CHARS)
            base = base[:pos] + ch + base[pos:]
        if rng.chance(1, 10):
            base = "." + base
        name = base + rng.choice(EXT_POOL)
        if name in (".", "..") or "/" in name or "\0" in name:
            continue
        if used is not None and name in used:
            continue
        if used is not None:
            used.add(name)
        return name
    n = "n%d" % rng.below(10 ** 6)
    if used is not None:
        used.add(n)
    return n


def gen_tree(rng, max_entries=30, max_depth=4, kinds="fdl", adversarial=False, sizes=None, mtimes=None):
    """returns list of entry specs: dict(path, kind, size/content, mode, mtime, target)"""
    entries = []
    dirs = [("", 0)]
    used = {"": set()}
    n = rng.range(1, max_entries)
    base_time = 1700000000
    for _ in range(n):
        parent, depth = rng.choice(dirs)
        name = gen_name(rng, adversarial, used[parent])
        path = (parent + "/" + name) if parent else name
        k = rng.below(100)
        mode = rng.choice([0o644, 0o600, 0o755, 0o664, 0o444, 0o640, 0o700, 0o4755, 0o2755, 0o1777, 0o400])
        mt = rng.choice(mtimes) if mtimes else base_time + rng.below(200 * 86400)
        if k < 30 and depth + 1 < max_depth and "d" in kinds:
            entries.append({"path": path, "kind": "d", "mode": rng.choice([0o755, 0o700, 0o775, 0o1777]), "mtime": mt})
            dirs.append((path, depth + 1))
            used[path] = set()
        elif k < 38 and "l" in kinds:
            tk = rng.below(4)
            if tk == 0 or not entries:
                target = "nonexistent-" + str(rng.below(100))
            else:
                t = rng.choice(entries)["path"]
                # relative to link's directory
                target = os.path.relpath(t, os.path.dirname(path) or ".")
            entries.append({"path": path, "kind": "l", "target": target, "mtime": mt})
        elif k < 42 and "p" in kinds:
            entries.append({"path": path, "kind": "p", "mode": mode & 0o777, "mtime": mt})
        elif k < 45 and "s" in kinds:
            entries.append({"path": path, "kind": "s", "mtime": mt})
        else:
            if sizes:
                size = rng.choice(sizes)
            else:
                size = rng.choice([0, 0, 1, 2, 3, 5, 7, 10, 12, 13, 99, 100, 101, 512, 1000, 1023, 1024, 1025, 2048, 4096, 10000, 65536, 100000])
            lines = rng.below(6)
            entries.append({"path": path, "kind": "f", "size": size, "mode": mode, "mtime": mt, "lines": lines,
                            "shebang": rng.chance(1, 8)})
    return entries


def file_bytes(e):
    size = e.get("size", 0)
    if "content" in e:
        return e["content"]
    body = bytearray()
    if e.get("shebang") and size >= 2:
        body += b"#!"
    lines = e.get("lines", 0)
    i = 0
    while len(body) < size:
        if lines > 0 and (len(body) % 7 == 3):
            body += b"\n"
            lines -= 1
        else:
            body += bytes([97 + (i % 26)])
        i += 1
    return bytes(body[:size])


def materialise(root, entries):
    """create the tree under `root` (must exist).  Directories' mtimes/modes are set last."""
    later = []
    for e in entries:
        p = os.path.join(root, e["path"])
        k = e["kind"]
        if k == "d":
            os.makedirs(p, exist_ok=True)
            later.append(e)
        elif k == "f":
            if e.get("sparse"):
                with open(p, "wb") as f:
                    f.truncate(e["size"])
            else:
                with open(p, "wb") as f:
                    f.write(file_bytes(e))
            os.chmod(p, e.get("mode", 0o644))
            os.utime(p, (e["mtime"], e["mtime"]))
        elif k == "l":
            os.symlink(e["target"], p)
            try:
                os.utime(p, (e["mtime"], e["mtime"]), follow_symlinks=False)
            except (NotImplementedError, OSError):
                pass
        elif k == "p":
            os.mkfifo(p, e.get("mode", 0o644))
            os.chmod(p, e.get("mode", 0o644))
            os.utime(p, (e["mtime"], e["mtime"]))
        elif k == "s":
            s = socket.socket(socket.AF_UNIX)
            cwd = os.getcwd()
            try:
                os.chdir(os.path.dirname(p) or ".")
                s.bind(os.path.basename(p))
            finally:
                os.chdir(cwd)
                s.close()
            os.utime(p, (e["mtime"], e["mtime"]))
    for e in reversed(later):
        p = os.path.join(root, e["path"])
        os.chmod(p, e.get("mode", 0o755))
        os.utime(p, (e["mtime"], e["mtime"]))


KIND_OF = {stat.S_IFREG: "f", stat.S_IFDIR: "d", stat.S_IFLNK: "l", stat.S_IFIFO: "p", stat.S_IFSOCK: "s",
           stat.S_IFCHR: "c", stat.S_IFBLK: "b"}


def snapshot(root, content_facts=True, max_text=4096):
    """pre-order list of nodes under `root` in readdir order (os.scandir order == readdir order).
    Each node: dict(rel, name, depth, kind, size, mode, uid, gid, nlink, ino, dev, mtime, target, facts)."""
    nodes = []

    def node(path, rel, name, depth):
        st = os.lstat(path)
        kind = KIND_OF.get(stat.S_IFMT(st.st_mode), "?")
        n = {"rel": rel, "name": name, "depth": depth, "kind": kind, "size": st.st_size, "mode": st.st_mode,
             "uid": st.st_uid, "gid": st.st_gid, "nlink": st.st_nlink, "ino": st.st_ino, "dev": st.st_dev,
             "mtime": int(st.st_mtime), "blocks": st.st_blocks, "target": None, "facts": {}}
        if kind == "l":
            n["target"] = os.readlink(path)
        if content_facts and kind == "f":
            try:
                with open(path, "rb") as f:
                    data = f.read()
                n["facts"]["nl"] = data.count(b"\n")
                n["facts"]["sb"] = 1 if data[:2] == b"#!" else 0
                n["facts"]["sha1"] = hashlib.sha1(data).hexdigest()
                n["facts"]["sha256"] = hashlib.sha256(data).hexdigest()
                n["facts"]["sha512"] = hashlib.sha512(data).hexdigest()
                n["facts"]["sha3"] = hashlib.sha3_512(data).hexdigest()
                if len(data) <= max_text:
                    try:
                        n["facts"]["text"] = data.decode("utf-8")
                    except UnicodeDecodeError:
                        pass
            except OSError:
                n["facts"]["unreadable"] = 1
        return n

    def walk(path, rel, depth):
        try:
            with os.scandir(path) as it:
                names = [e.name for e in it]
        except OSError:
            return None
        for name in names:
            p = os.path.join(path, name)
            r = (rel + "/" + name) if rel else name
            n = node(p, r, name, depth)
            nodes.append(n)
            if n["kind"] == "d":
                kids = walk(p, r, depth + 1)
                if kids is None:
                    n["facts"]["unlistable"] = 1
        return True

    walk(root, "", 1)
    return nodes
