"""Materialise generated trees on disk and read them back as snapshots (the model's view of the OS)."""
import hashlib
import os
import socket
import stat
import time

from common import Rng

SAFE_ALPHA = "abcdefghij"
NAME_POOL = ["a", "b", "c", "d", "e", "f", "src", "lib", "doc", "x1", "x2", "readme", "main", "test", "data"]
EXT_POOL = ["", "", ".txt", ".rs", ".md", ".c", ".zip", ".TXT", ".tar.gz", ".jpg", ".pdf", ".bin"]
ADV_CHARS = list(" +()[]{}|^$-,'#~.&<>\"=!%;@") + ["é", "ж", "日", "\t"]


def gen_name(rng, adversarial=False, used=None):
    for _ in range(50):
        base = rng.choice(NAME_POOL)
        if rng.chance(1, 3):
            base += str(rng.below(30))
        if adversarial and rng.chance(1, 2):
            pos = rng.below(len(base) + 1)
            ch = rng.choice(ADV_CHARS)
            base = base[:pos] + ch + base[pos:]
        if rng.chance(1, 10):
            base = "." + base
        name = base + rng.choice(EXT_POOL)
        if name in (".", "..") or "/" in name or "\0" in name:
            continue
        if used is not None and name in used:
            continue
        if used is not None:
            used.add(name)
        return name
    n = "n%d" % rng.below(10 ** 6)
    if used is not None:
        used.add(n)
    return n


def gen_tree(rng, max_entries=30, max_depth=4, kinds="fdl", adversarial=False, sizes=None, mtimes=None):
    """returns list of entry specs: dict(path, kind, size/content, mode, mtime, target)"""
    entries = []
    dirs = [("", 0)]
    used = {"": set()}
    n = rng.range(1, max_entries)
    base_time = 1700000000
    for _ in range(n):
        parent, depth = rng.choice(dirs)
        name = gen_name(rng, adversarial, used[parent])
        path = (parent + "/" + name) if parent else name
        k = rng.below(100)
        mode = rng.choice([0o644, 0o600, 0o755, 0o664, 0o444, 0o640, 0o700, 0o4755, 0o2755, 0o1777, 0o400])
        mt = rng.choice(mtimes) if mtimes else base_time + rng.below(200 * 86400)
        if k < 30 and depth + 1 < max_depth and "d" in kinds:
            entries.append({"path": path, "kind": "d", "mode": rng.choice([0o755, 0o700, 0o775, 0o1777]), "mtime": mt})
            dirs.append((path, depth + 1))
            used[path] = set()
        elif k < 38 and "l" in kinds:
            tk = rng.below(4)
            if tk == 0 or not entries:
                target = "nonexistent-" + str(rng.below(100))
            else:
                t = rng.choice(entries)["path"]
                # relative to link's directory
                target = os.path.relpath(t, os.path.dirname(path) or ".")
            entries.append({"path": path, "kind": "l", "target": target, "mtime": mt})
        elif k < 42 and "p" in kinds:
            entries.append({"path": path, "kind": "p", "mode": mode & 0o777, "mtime": mt})
        elif k < 45 and "s" in kinds:
            entries.append({"path": path, "kind": "s", "mtime": mt})
        else:
            if sizes:
                size = rng.choice(sizes)
            else:
                size = rng.choice([0, 0, 1, 2, 3, 5, 7, 10, 12, 13, 99, 100, 101, 512, 1000, 1023, 1024, 1025, 2048, 4096, 10000, 65536, 100000])
            lines = rng.below(6)
            entries.append({"path": path, "kind": "f", "size": size, "mode": mode, "mtime": mt, "lines": lines,
                            "shebang": rng.chance(1, 8), "mtime_ns": rng.choice([0, 0, 1, 500000000, 750000000, 999999999])})
    return entries


def file_bytes(e):
    size = e.get("size", 0)
    if "content" in e:
        return e["content"]
    body = bytearray()
    if e.get("shebang") and size >= 2:
        body += b"#!"
    lines = e.get("lines", 0)
    i = 0
    while len(body) < size:
        if lines > 0 and (len(body) % 7 == 3):
            body += b"\n"
            lines -= 1
        else:
            body += bytes([97 + (i % 26)])
        i += 1
    return bytes(body[:size])


def _utime(p, e, follow_symlinks=True):
    """modification time with an optional sub-second part (`mtime_ns`): the code compares whole seconds"""
    ns = e["mtime"] * 1000000000 + e.get("mtime_ns", 0)
    os.utime(p, ns=(ns, ns), follow_symlinks=follow_symlinks)


def materialise(root, entries):
    """create the tree under `root` (must exist).  Directories' mtimes/modes are set last."""
    later = []
    for e in entries:
        p = os.path.join(root, e["path"])
        k = e["kind"]
        if k == "d":
            os.makedirs(p, exist_ok=True)
            later.append(e)
        elif k == "f":
            if e.get("sparse"):
                with open(p, "wb") as f:
                    f.truncate(e["size"])
            else:
                with open(p, "wb") as f:
                    f.write(file_bytes(e))
            os.chmod(p, e.get("mode", 0o644))
            _utime(p, e)
        elif k == "z":
            write_zip(p, e.get("members", []), e.get("compress", False))
            if e.get("prefix"):
                # data in front of the first record (self-extracting stub, launcher script): still a readable archive
                with open(p, "rb") as f:
                    body = f.read()
                with open(p, "wb") as f:
                    f.write(e["prefix"] + body)
            os.chmod(p, e.get("mode", 0o644))
            _utime(p, e)
        elif k == "h":
            os.link(os.path.join(root, e["target"]), p)      # a second name of an existing file (same inode)
        elif k == "raw":
            with open(p, "wb") as f:
                f.write(e["content"])
            os.chmod(p, e.get("mode", 0o644))
            _utime(p, e)
        elif k == "l":
            os.symlink(e["target"], p)
            try:
                _utime(p, e, follow_symlinks=False)
            except (NotImplementedError, OSError):
                pass
        elif k == "p":
            os.mkfifo(p, e.get("mode", 0o644))
            os.chmod(p, e.get("mode", 0o644))
            _utime(p, e)
        elif k == "s":
            s = socket.socket(socket.AF_UNIX)
            cwd = os.getcwd()
            try:
                os.chdir(os.path.dirname(p) or ".")
                s.bind(os.path.basename(p))
            finally:
                os.chdir(cwd)
                s.close()
            _utime(p, e)
    for e in reversed(later):
        p = os.path.join(root, e["path"])
        os.chmod(p, e.get("mode", 0o755))
        _utime(p, e)


def write_zip(path, members, compress=False):
    """members: dicts name, data(bytes) or size, mode (unix mode incl. type bits, optional), date (6-tuple), isdir"""
    import zipfile
    with zipfile.ZipFile(path, "w", zipfile.ZIP_DEFLATED if compress else zipfile.ZIP_STORED) as z:
        for m in members:
            zi = zipfile.ZipInfo(m["name"], date_time=tuple(m.get("date", (2020, 1, 2, 3, 4, 6))))
            if m.get("mode") is not None:
                zi.create_system = 3
                zi.external_attr = (m["mode"] & 0xFFFF) << 16
            else:
                zi.create_system = 0
                zi.external_attr = 0
            data = m.get("data")
            if data is None:
                data = b"x" * m.get("size", 0)
            if m["name"].endswith("/"):
                data = b""
            zi.compress_type = zipfile.ZIP_DEFLATED if compress else zipfile.ZIP_STORED
            z.writestr(zi, data)
    enc = [m["name"] for m in members if m.get("encrypted")]
    if enc:
        mark_encrypted(path, enc)


def mark_encrypted(path, names):
    """set the `encrypted` general-purpose flag of the named members (local + central header): the member
    table still parses, but opening such a member fails without a password"""
    import struct
    data = bytearray(open(path, "rb").read())
    with __import__("zipfile").ZipFile(path) as z:
        infos = {i.filename: i.header_offset for i in z.infolist()}
    for nm in names:
        off = infos[nm]
        flags = struct.unpack_from("<H", data, off + 6)[0]
        struct.pack_into("<H", data, off + 6, flags | 1)
    # central directory entries: signature PK\x01\x02, flags at +8, name at +46
    pos = 0
    while True:
        pos = data.find(b"PK\x01\x02", pos)
        if pos < 0:
            break
        nlen = struct.unpack_from("<H", data, pos + 28)[0]
        name = bytes(data[pos + 46:pos + 46 + nlen]).decode("utf-8", "replace")
        if name in names:
            flags = struct.unpack_from("<H", data, pos + 8)[0]
            struct.pack_into("<H", data, pos + 8, flags | 1)
        pos += 46 + nlen
    open(path, "wb").write(bytes(data))


def gen_zip_members(rng, n):
    out = []
    used = set()
    dirs = [""]
    for i in range(n):
        d = rng.choice(dirs)
        base = rng.choice(["a", "b", "c", "doc", "x1", "read me", "é", ".hid", "lib"]) + rng.choice(["", ".txt", ".log", ".rs", ".TXT"])
        name = d + base
        if name in used:
            name = d + "m%d.txt" % i
        used.add(name)
        if rng.chance(1, 5):
            name += "/"
            dirs.append(name)
            # (a directory member is one whose name ends in `/`, whatever type bits its stored mode carries)
            out.append({"name": name, "size": 0, "mode": rng.choice([0o40755, 0o40700, None, 0o755, 0o100755]),
                        "date": (rng.choice([1999, 2020, 2024]), rng.range(1, 12), rng.range(1, 28), rng.below(24), rng.below(60), rng.below(30) * 2)})
        else:
            out.append({"name": name, "size": rng.choice([0, 1, 5, 10, 100, 1024]),
                        "mode": rng.choice([0o100644, 0o100755, 0o100600, 0o104755, 0o120777, None]),
                        "date": (rng.choice([1999, 2020, 2024]), rng.range(1, 12), rng.range(1, 28), rng.below(24), rng.below(60), rng.below(30) * 2)})
    return out


KIND_OF = {stat.S_IFREG: "f", stat.S_IFDIR: "d", stat.S_IFLNK: "l", stat.S_IFIFO: "p", stat.S_IFSOCK: "s",
           stat.S_IFCHR: "c", stat.S_IFBLK: "b"}


TZ_OFFSETS = {"UTC": 0, "<+03>-3": 10800, "<-0530>5:30": -19800}
# zones with daylight saving time, as POSIX rules (no tzdata needed): the offset depends on the instant
DST_ZONES = ["CET-1CEST,M3.5.0,M10.5.0/3", "EST5EDT,M3.2.0,M11.1.0", "<+1030>-10:30<+11>-11,M10.1.0,M4.1.0"]
_TZ_CACHE = {}


def tz_off(tz, t):
    """seconds east of UTC in zone `tz` at the instant `t` (glibc's reading of the POSIX rule)"""
    if tz in TZ_OFFSETS:
        return TZ_OFFSETS[tz]
    k = (tz, int(t))
    if k not in _TZ_CACHE:
        old = os.environ.get("TZ")
        os.environ["TZ"] = tz
        time.tzset()
        try:
            _TZ_CACHE[k] = time.localtime(int(t)).tm_gmtoff
        finally:
            if old is None:
                del os.environ["TZ"]
            else:
                os.environ["TZ"] = old
            time.tzset()
    return _TZ_CACHE[k]


def instants_of_local(tz, local):
    """the instants whose local wall-clock reading in `tz` is `local` seconds (0, 1 or 2 of them)"""
    out = []
    for o in sorted({tz_off(tz, local - 14 * 3600), tz_off(tz, local + 14 * 3600), tz_off(tz, local)}):
        if tz_off(tz, local - o) == o and local - o not in out:
            out.append(local - o)
    return out


def _user(uid):
    import pwd
    try:
        return pwd.getpwuid(uid).pw_name
    except KeyError:
        return None


def _group(gid):
    import grp
    try:
        return grp.getgrgid(gid).gr_name
    except KeyError:
        return None


def node_of(path, rel, name, depth, content_facts=True, max_text=4096, zip_exts=(".zip", ".jar", ".war", ".ear")):
    st = os.lstat(path)
    kind = KIND_OF.get(stat.S_IFMT(st.st_mode), "?")
    n = {"rel": rel, "name": name, "depth": depth, "kind": kind, "size": st.st_size, "mode": st.st_mode,
         "uid": st.st_uid, "gid": st.st_gid, "nlink": st.st_nlink, "ino": st.st_ino, "dev": st.st_dev,
         "mtime": st.st_mtime_ns // 1000000000, "blocks": st.st_blocks, "target": None, "facts": {},
         "user": _user(st.st_uid), "group": _group(st.st_gid)}
    f = n["facts"]
    if kind == "l":
        n["target"] = os.readlink(path)
        try:
            f["real"] = os.path.realpath(path, strict=True)
        except OSError:
            pass
    # what the content readers see (they follow links; special files are refused)
    try:
        tst = os.stat(path)
        tkind = KIND_OF.get(stat.S_IFMT(tst.st_mode), "?")
    except OSError:
        tkind = None
    if content_facts and tkind == "f" and tst.st_size <= (8 << 20):
        try:
            with open(path, "rb") as fh:
                data = fh.read()
            f["nl"] = data.count(b"\n")
            f["sb"] = 1 if data[:2] == b"#!" else 0
            f["sha1"] = hashlib.sha1(data).hexdigest()
            f["sha256"] = hashlib.sha256(data).hexdigest()
            f["sha512"] = hashlib.sha512(data).hexdigest()
            f["sha3"] = hashlib.sha3_512(data).hexdigest()
            if len(data) <= max_text:
                try:
                    f["text"] = data.decode("utf-8")
                except UnicodeDecodeError:
                    pass
            if path.lower().endswith(tuple(zip_exts)):
                f["zip"] = read_zip(path)
        except OSError:
            f["unreadable"] = 1
    if tkind != "f":
        f["unreadable"] = 1       # nothing to read: dangling link, directory, special file (refused by open_file)
    if tkind in ("f", "d"):
        try:
            xs = os.listxattr(path)
            f["xa"] = 1 if xs else 0
            f["xattrs"] = {}
            for x in xs:
                try:
                    f["xattrs"][x] = os.getxattr(path, x)
                except OSError:
                    pass
        except OSError:
            pass
        if os.access(path, os.R_OK):
            try:
                f["capsraw"] = os.getxattr(path, "security.capability").hex()
            except OSError:
                f["nocaps"] = 1
    if kind == "d":
        try:
            with os.scandir(path) as it:
                f["empty"] = 0 if any(True for _ in it) else 1
        except OSError:
            f["unlistable"] = 1
    return n


def read_zip(path):
    """member table as the zip crate reports it; None if unreadable"""
    import zipfile
    try:
        with zipfile.ZipFile(path) as z:
            out = []
            for i in z.infolist():
                if i.flag_bits & 1:
                    continue        # encrypted member: `by_index` fails, the member is skipped
                # zip crate `unix_mode()`: None for external_attributes == 0; Unix: high 16 bits; DOS: derived
                # from the directory / read-only bits; other systems: None
                if i.external_attr == 0:
                    mode = None
                elif i.create_system == 3:
                    mode = i.external_attr >> 16
                elif i.create_system == 0:
                    mode = (0o40775 if (i.external_attr & 0x10) else 0o100664)
                    if i.external_attr & 0x01:
                        mode &= 0o555
                else:
                    mode = None
                out.append({"name": i.filename, "size": i.file_size, "mode": mode, "date": list(i.date_time)})
            return out
    except Exception:
        return None


def snapshot(root, content_facts=True, max_text=4096):
    """(top node, pre-order list of nodes under `root` in readdir order)."""
    nodes = []

    def walk(path, rel, depth):
        try:
            with os.scandir(path) as it:
                names = [e.name for e in it]
        except OSError:
            return None
        for name in names:
            p = os.path.join(path, name)
            r = (rel + "/" + name) if rel else name
            n = node_of(p, r, name, depth, content_facts, max_text)
            nodes.append(n)
            if n["kind"] == "d":
                walk(p, r, depth + 1)
        return True

    top = node_of(root, "", os.path.basename(root), 0, content_facts, max_text)
    walk(root, "", 1)
    try:
        add_git_facts(root, top, nodes)
    except OSError:
        pass
    return top, nodes


def add_git_facts(root, top, nodes):
    """libgit2's verdict per entry, taken from `git check-ignore` (the reference implementation of the same
    rules); `.git` itself counts as ignored, as libgit2 reports it"""
    import subprocess
    repos = [root] if os.path.isdir(os.path.join(root, ".git")) else []
    for n in nodes:
        if n["kind"] == "d" and os.path.isdir(os.path.join(root, n["rel"], ".git")):
            repos.append(os.path.join(root, n["rel"]))
    if not repos:
        return
    for n in nodes:
        p = os.path.join(root, n["rel"])
        repo = None
        for rp in sorted(repos, key=len, reverse=True):
            if p == rp or p.startswith(rp + "/"):
                repo = rp
                break
        if repo is None or p == repo:
            continue
        rel = os.path.relpath(p, repo)
        if rel == ".git" or rel.startswith(".git/"):
            n["facts"]["gitign"] = 1
            continue
        n["_git"] = (repo, rel + ("/" if n["kind"] == "d" else ""))
    by_repo = {}
    for n in nodes:
        if "_git" in n:
            by_repo.setdefault(n["_git"][0], []).append(n)
    for repo, ns in by_repo.items():
        inp = "\0".join(n["_git"][1] for n in ns).encode("utf-8", "surrogateescape") + b"\0"
        pr = subprocess.run(["git", "-C", repo, "check-ignore", "--stdin", "-z"], input=inp, stdout=subprocess.PIPE,
                            stderr=subprocess.PIPE, env={"HOME": "/nonexistent", "PATH": "/usr/bin:/bin", "GIT_CONFIG_NOSYSTEM": "1"})
        ignored = set(pr.stdout.split(b"\0"))
        for n in ns:
            if n["_git"][1].encode("utf-8", "surrogateescape") in ignored:
                n["facts"]["gitign"] = 1
            del n["_git"]


def days_from_civil(y, m, d):
    import datetime
    return (datetime.date(y, m, d) - datetime.date(1970, 1, 1)).days


def node_line(n, tz):
    tzoff = tz_off(tz, n["mtime"])
    from common import hx
    f = n["facts"]
    fields = [str(n["depth"]), hx(n["name"]), n["kind"], str(n["size"]), str(n["mode"]), str(n["uid"]), str(n["gid"]),
              str(n["nlink"]), str(n["ino"]), str(n["dev"]), str(n["blocks"]), str(n["mtime"] + tzoff),
              hx(n["user"]) if n["user"] is not None else "!", hx(n["group"]) if n["group"] is not None else "!"]
    for k in ("nl", "sb", "sha1", "sha256", "sha512", "sha3", "empty", "xa", "unlistable", "unreadable", "capsraw", "nocaps", "gitign"):
        if k in f:
            fields.append("%s=%s" % (k, f[k]))
    if "text" in f:
        fields.append("text=" + hx(f["text"]))
    if "real" in f:
        fields.append("real=" + hx(f["real"]))
    if n.get("target") is not None:
        fields.append("target=" + hx(n["target"]))
    if "xattrs" in f:
        for k, v in f["xattrs"].items():
            try:
                fields.append("xattr=%s:%s" % (hx(k), hx(v.decode("utf-8"))))
            except UnicodeDecodeError:
                fields.append("xattr=%s:!" % hx(k))
    if "zip" in f:
        z = f["zip"]
        if z is None:
            fields.append("zip=corrupt")
        elif not z:
            fields.append("zip=empty")
        else:
            ms = []
            for m in z:
                y, mo, d, h, mi, s = m["date"]
                try:
                    t = days_from_civil(y, mo, d) * 86400 + h * 3600 + mi * 60 + s
                    ts = str(t)
                except ValueError:
                    ts = "-"
                ms.append("%s:%d:%s:%s" % (hx(m["name"]), m["size"], "-" if m["mode"] is None else m["mode"], ts))
            fields.append("zip=" + ";".join(ms))
    return "\t".join(fields)


def send_snapshot(model, root, top, nodes, cwd, tz="UTC"):
    from common import hx
    r = model.ask_raw("fs-begin\t%s\t%s" % (hx(os.path.realpath(root)), hx(os.path.realpath(cwd))))
    if r != "ok":
        return False
    for n in nodes:
        if model.ask_raw("node\t" + node_line(n, tz)) != "ok":
            return False
    return model.ask_raw("fs-end\t" + node_line(top, tz)) == "ok"


def model_today(tz="UTC", now=None):
    now = time.time() if now is None else now
    return int((now + tz_off(tz, now)) // 86400)
