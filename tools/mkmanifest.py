#!/usr/bin/env python3
"""Regenerates /verif/MANIFEST.json from the per-property claims below (single source of truth)."""
import json
import os

VERIF = os.path.dirname(os.path.dirname(os.path.abspath(__file__)))

COMMON_NOTE = ("Trusted: Lean 4.33 kernel (axioms ⊆ {propext, Classical.choice, Quot.sound}, audited by #print axioms on "
               "every property theorem; no sorry/native_decide/bv_decide/own axioms); the hand-written Lean model is "
               "modelled, not verified code — it is tied to /repo on every run by the CLI-boundary correspondence "
               "(model vs dev-profile binary on the same generated snapshot, byte for byte) and the table translator "
               "(tools/extract_tables.py regenerates Fsel/Gen/Tables.lean from the Rust sources, tools/extract_docs.py Fsel/Gen/DocTables.lean from docs/usage.md); external crates and "
               "the OS appear as assumed definitions (regex fragment, serde_json/csv escaping, humansize, chrono with "
               "fixed-offset zones, zip, libgit2 via `git check-ignore`, std::fs); f64 is modelled in ℚ and exact only on small dyadic values (no signed zero).")

CLAIMS = {
    "C01": {
        "technique": "Lean 4 theorems by mutual structural induction over the directory tree: depth-first visit_dir = check_file folded over the pruned pre-order (state-passing walker with visited-inode set; depth arithmetic lemma), window = filter by level, subtree contiguity, counting; breadth-first: queue loop = check_file folded over a fuel-free level order (well-founded recursion; fuel sufficiency proved), level order is a permutation of the pre-order, levels never decrease; several disjoint roots = the roots one after the other + CLI correspondence (exact sequences) + os.walk oracle",
        "text": ("Theorems for every finite tree (any shape, depth, names, entry kinds) and every mindepth/maxdepth: with no streamed "
                 "LIMIT the depth-first searcher's result is exactly check_file (+ archive member loop) folded over the entries in pre-order "
                 "pruned below maxdepth, the traversal state only gains the tree's inode numbers, no error is recorded; that event list is "
                 "the full pre-order filtered by level ≤ maxdepth, entries with level < mindepth are not reported, a directory is "
                 "immediately followed by its subtree, links are not entered, and with unbounded depth there are exactly as many events as "
                 "entries. Hypotheses explicit with a satisfying example: single-component names, listable directories, pairwise distinct "
                 "directory/symlink inodes not seen before, root canonical path longer than '/'; for the root directory '/' itself root_slash_child_level: an entry directly inside it is on level 1 (D58 fixed: calc_depth counted slashes and put '/' and '/usr' on one level; the check lists '/' and '/etc' against os.listdir). "
                 "Breadth-first mode (the default): bfs_root_exact — visit_dir(root) plus the queue loop is exactly check_file folded over "
                 "levelOrder (defined without fuel; the model's fuel, one per directory plus one, is proved sufficient), with exactly the "
                 "unlistable directories recorded; bfs_same_entries_as_dfs — the level order is a permutation of the depth-first pre-order "
                 "(same rows, same multiplicities, for every tree and window); bfs_levels_nondecreasing — no entry precedes one of smaller "
                 "depth. Several roots: roots_exact — plain roots (no regexp/symlinks/ignore option) resolving to listable directories whose "
                 "directory/link inode numbers are pairwise distinct and unseen are searched one after the other, each reporting exactly its "
                 "own events under its own depth window and traversal mode (one_root_exact covers both modes). Overlapping roots and roots "
                 "with options are decided by byte-exact correspondence with the model and by the os.walk oracle."),
        "ref": "DESIGN.md §4 C01",
    },
    "C02": {
        "technique": "Lean 4 theorems on compareValues/Variant coercions/leafP (numeric, boolean, text atoms; quoted literal is text; boolean literal rejection), on the condition parser (comparison of arbitrary expression operands, BETWEEN desugaring with infix NOT) and on conforms (BETWEEN inclusive, column vs column) + CLI correspondence + independent Python oracle from lstat",
        "text": ("Theorems for every entry value and every literal meeting the stated well-formedness predicate: an integer-typed column "
                 "against an integral literal is the numeric comparison for all eight operator kinds; a boolean column against the documented "
                 "words is (in)equality of booleans and an unparsable word is a status-2 error (D03 fixed); text =/!= without wildcard and "
                 "===/!== are (in)equality of text; a quoted literal parses to text whatever it spells (D02 fixed). Date atoms: C13; pattern "
                 "atoms: C12; unit literals: C14. comparison_of_expressions: `e1 [not] op e2` with operands from the whole arithmetic grammar "
                 "parses to one comparison node (infix NOT negates the operator); between_is_atom/between_inclusive: `x [not] between lo and "
                 "hi` parses to x >= lo AND x <= hi (resp. the De Morgan complement) and is true exactly when lo ≤ x ≤ hi; column_vs_column: "
                 "both operands are evaluated on the same entry; literal_with_unit / int_atom_with_unit: a run of digits followed by a "
                 "documented unit word is no integer and no float literal, so it denotes number × multiplier bytes (C14's unit_table over the "
                 "generated ladder) and `size OP <digits><unit>` is the numeric comparison with that byte count, for every unit and every number "
                 "that fits; atom_is_typed_comparison / pattern_on_any_type: pattern operators match the text of a value of any type (D74 fixed). "
                 "The binding of columns to lstat attributes and float/fractional-unit/date literals end "
                 "to end are decided by the correspondence and by an independent Python evaluation of the documented meaning for every entry."),
        "ref": "DESIGN.md §4 C02",
    },
    "C03": {
        "technique": "Lean 4 theorems: condition-parser correctness for the whole Boolean grammar X/Y/Z (mutual structural induction over derivations against the well-founded recursive-descent model: AND over OR, brackets, prefix NOT parity with De Morgan push-down), negate_expr_op / Op::negate (generated table) / conforms (involution, De Morgan, BETWEEN complement, verdict-level complement under per-type atom lemmas) + CLI correspondence + set-algebra oracle",
        "text": ("Theorems: for EVERY derivation of X ::= Y (or Y)*, Y ::= Z (and Z)*, Z ::= not* (atom | (X)) — any depth and length — "
                 "parse_expr on its token sequence returns the tree the derivation denotes and leaves exactly the following tokens, so "
                 "AND binds tighter than OR, brackets override and a run of prefix NOTs negates by parity (`column op literal` is shown "
                 "to be an atom; instances and_binds_tighter, brackets_override_precedence, not_bracket_is_de_morgan). For every "
                 "condition tree and entry: double negation is the identity (over the generated Op::negate table), NOT over AND/OR is "
                 "De Morgan, `not between` is the negation of `between`, A and B / A or B evaluate to the conjunction / disjunction of "
                 "the sub-verdicts, and the verdict of a negated condition is the negated verdict (including error/short-circuit "
                 "behaviour) whenever each comparison atom is complement-safe — discharged for integer and date comparisons, for text with "
                 "equality, pattern AND ordering operators (text_ordering_neg: lexicographic order, antisymmetry proved; D73 fixed) and "
                 "for LIKE / regex against a column of any type (pattern_neg_any_type: they match the text of the value; D74 fixed); one "
                 "counterexample theorem shows the remaining explicit hypothesis cannot be dropped (NaN literal). The infix forms `e1 not OP e2` and `x [not] between lo and "
                 "hi` (operands from the whole arithmetic grammar) are atoms of the proved grammar, so the parser-correctness theorem "
                 "covers them under prefix NOTs and brackets (infix_not_is_atom, between_forms_are_atoms). Curly brackets inside formulas "
                 "and the end-to-end result sets are decided by the correspondence and the set-algebra oracle over atom queries."),
        "ref": "DESIGN.md §4 C03",
    },
    "C05": {
        "technique": "Lean 4 theorems on the TopN/Criteria model (refinement BTreeMap-of-echelons → stable insertion sort; total-preorder proof for Criteria) + CLI correspondence + permutation/sortedness oracle",
        "text": ("Theorems for every insertion history, key list and direction vector: Criteria::cmp is a total preorder; "
                 "the echelon (BTreeMap<K,Vec<V>>) layer refines stable insertion into a list; the unlimited ordered result "
                 "is a permutation of the buffered rows with non-decreasing keys and stable ties — stated on `orderedPieces`, "
                 "the function the model prints; parse_order_by reads the key list as written — every key (expression of the proved "
                 "grammar or position in the select list) in order, each with its own direction (order_by_parse_correct); a key listed a second time, in whatever direction, never changes the comparison "
                 "(repeated_key_irrelevant). That the buffered rows equal the rows of the query without ORDER BY, and the "
                 "unselected-key clause, are decided by the correspondence (model vs binary) and the oracle "
                 "(permutation of the unordered run as multisets, also with select lists that give different entries the same row text; adjacent pairs ordered under an independent comparator), not by proof. "
                 "D86 fixed (on 29 February every ORDER BY over a date column panicked: the fallback date was built from today's date): a date-ordered query is rerun under four wall clocks fixed by an LD_PRELOAD shim and must give the same bytes."),
        "ref": "DESIGN.md §4 C05",
    },
    "C06": {
        "technique": "Lean 4 theorems: bounded TopN = take N of the unbounded sorted result (refinement + truncation lemma); streamed LIMIT in the depth-first and breadth-first walkers = prefix of the unlimited run (mutual structural induction over the tree / induction over the queue loop, under any plan, + list-level prefix lemma) + exhaustive-N CLI runs",
        "text": ("Theorems for every insertion history, every N ≥ 1 and every total preorder: the limited ordered result is "
                 "exactly the first N rows of the unlimited ordered result (ties resolved identically), so it has min(N, M) rows; "
                 "limit 0 builds the limitless buffer. Streamed path (no ORDER BY, no aggregate), for every tree, filter, depth window and N ≥ 1 "
                 "in depth-first mode: the walker's result under ANY plan is check_file folded over the entries and archive members in "
                 "pre-order, stopping at the limit (dfs_streamed_any_plan, no NoLimit hypothesis); whenever the unlimited search of a root "
                 "succeeds with M rows the search with limit N succeeds, reports exactly min(N, M) rows, and they are the first "
                 "min(N, M) chunks the unlimited search wrote, in the same order — the bytes on stdout are a prefix of the unlimited "
                 "output (dfs_streamed_limit, dfs_streamed_limit_bytes); nothing is examined after the limit. The same two theorems for the "
                 "breadth-first walker (the default mode): visit_dir(root) plus the queue loop under any plan is check_file folded over "
                 "the fuel-free level order, stopping at the limit, and the limited search reports the first min(N, M) rows of the "
                 "unlimited breadth-first search (bfs_streamed_any_plan, bfs_streamed_limit; drain_reached: the queue is still drained "
                 "after the limit but nothing is examined). Several disjoint plain roots (each bfs or dfs with its own depth window): searched one "
                 "after the other until the limit is reached, after which no root is examined; the limited search of all the roots reports the first "
                 "min(N, M) rows of the unlimited search (roots_streamed_any_plan, roots_reached, roots_streamed_limit). "
                 "Grouped queries (D85 fixed: LIMIT was ignored for group rows): the model cuts the tie runs of the sorted group rows with cutRuns; "
                 "grouped_limit_keeps_prefix, grouped_limit_on_boundary, grouped_limit_inside_run — the kept runs are the first runs in order, min(N, groups) rows "
                 "are shown, and only inside the run of ties that straddles the cut is the choice of rows open (the hash order of the groups decides there). "
                 "Roots with options (symlinks, ignore files), overlapping roots and the footer are decided by correspondence and by the oracle against the unlimited run for every N in 1..M+2."),
        "ref": "DESIGN.md §4 C06",
    },
    "C07": {
        "technique": "Lean 4 theorems on the aggregate model (decimal render/parse round trip; COUNT/SUM/MIN/AVG and variance specifications in ℚ) + CLI correspondence + Python Fraction oracle",
        "text": ("Theorems for every list of naturals rendered in decimal under the aggregated column (any length, machine range): "
                 "parse∘show = id on naturals, COUNT = number of rows, SUM = Σ, MIN is an attained lower bound, AVG = Σ/n in ℚ (not "
                 "truncated; D14 fixed), empty-result values; for a column that is empty for some entries (line_count of a directory): SUM skips "
                 "them and AVG = SUM / number of entries (sum_spec_partial, avg_spec_partial). VAR_POP / VAR_SAMP: the model's value is exactly the textbook "
                 "two-pass formula Σ(μ − x)²/n in ℚ with μ = Σx/count, n = count resp. count − 1 (variance_spec, variance_divisors). The f64 computation is compared "
                 "numerically (relative tolerance 1e-9) with the model and with a Python Fraction/math oracle; f64 rounding, square roots, "
                 "'WHERE before aggregation' and 'aggregate of a scalar expression' are decided by correspondence/oracle, not by proof."),
        "ref": "DESIGN.md §4 C07",
    },
    "C08": {
        "technique": "Lean 4 theorems on partition_output_buffer (fold invariant: fibres, distinct keys, coverage ⇒ conservation of COUNT and SUM) + CLI correspondence + recomputation oracle",
        "text": ("Theorems for every list of buffered rows and every grouping key list: each group is exactly the fibre of its key "
                 "(arrival order, non-empty), keys are pairwise distinct, every row's key has a group; hence group COUNTs add up to the "
                 "ungrouped COUNT, group SUMs to the ungrouped SUM, and a group's aggregate equals the aggregate of the ungrouped rows "
                 "restricted to key = value. ORDER BY over the group rows: the comparison is mirror-symmetric for every key list, direction list and pair of rows, whatever mix of numbers and text the cells hold (grouped_cmp_mirror over cellCmp_swap: total, never 'less' both ways; D80 fixed); the comparison of cells is a TOTAL ORDER — cell_order_is_total: transitive in all four </= combinations for every three cells, being the lexicographic order of (number before text, numeric value under total_cmp, integer spelling, text), proved from the orders of Q, Z and code points together with the lemma that the model's i64 parser accepts nothing its f64 parser rejects; numbers sort before everything that is no number (number_before_text). group_row_order_is_total: the comparison of whole rows over any key list with any directions is a total order too (lexicographic combination, desc = reversal). Group order is unspecified in the code (HashMap) and compared as a multiset (within "
                 "ORDER BY tie runs); ORDER BY on key/aggregate and rendering are decided by correspondence and the Python oracle."),
        "ref": "DESIGN.md §4 C08",
    },
    "C09": {
        "technique": "Lean 4 round-trip theorems (emitter ∘ reference reader = id) for JSON strings, CSV fields, HTML cells and flat rows, and for whole CSV documents, JSON arrays of objects and HTML tables (induction over fields, records, members, cells, rows) + CLI correspondence + Python json/csv/html.parser oracle",
        "text": ("Theorems for every value (any characters, any length): serde-style JSON escaping is inverted by an RFC 8259 string reader "
                 "that rejects raw quotes and control characters; RFC 4180 quoting is inverted by the field reader whatever follows the "
                 "field; HTML escaping is inverted by entity decoding and emits no < or > (D18 fixed); tabs/lines/list rows split back when "
                 "no value contains the separator. Whole documents, for every table (any number of rows and columns, any values): the CSV output "
                 "read by an RFC 4180 record reader is exactly the list of rows — one record per row, also the lone empty field "
                 "(csv_record_roundtrip, csv_document_roundtrip); header `[`, rows joined by `,`, footer `]` is read back as one JSON array "
                 "with one object per row, each object the key/value map the row was written from (json_literal_roundtrip, "
                 "json_object_roundtrip, json_document_roundtrip); the HTML document — header, one <tr> per row with one <td> per value, footer — is "
                 "read back as the list of rows, every cell unescaped to its value (html_text_in_context, html_row_roundtrip, "
                 "html_document_roundtrip); the `into list` output split at NUL is all the cells of all the rows in order (list_document_roundtrip). That the four result paths emit header/rows/separators/footer in this "
                 "shape is decided by correspondence (bytes vs model) and by Python's parsers against the `into list` run. Known finding D19 "
                 "(identical column texts share a JSON key) is reported as KNOWN-FINDING."),
        "ref": "DESIGN.md §4 C09",
    },
    "C10": {
        "technique": "Lean 4 theorems over a hand-written model (well-founded total lexer/parser, panic-free result types, rejection lemmas) + differential correspondence with Parser::parse and the binary",
        "text": ("Theorems (all token lists / argument vectors): the lexer and parser model are total (accepted by Lean's "
                 "termination checker with explicit measures; strict-progress invariant carried in the result types), their "
                 "outcome is a query or Err(msg) — no panic/hang constructor exists after the D20–D25 fixes — and each "
                 "malformed-query class named by the property is rejected. Evaluation-time clauses (bad regex/date/boolean/"
                 "function argument → status 2) and 'promptly' are decided by differential runs of the real binary (status in "
                 "{0,1,2}, no panic marker, wall-clock limit), not by proof."),
        "ref": "DESIGN.md §4 C10",
    },
    "C12": {
        "technique": "Lean 4 theorems: the anchored case-folding regex of a pattern's atoms is the textbook whole-string matcher (induction on pattern and subject), the model's regex parser reads the pattern text of convert_glob_to_pattern / convert_like_to_pattern back as exactly that atom chain for every pattern (induction with a fuel bound), negative operators are complements, regex-cache transparency under an invariant + in-process comparison with the real regex crate + Python reference matcher",
        "text": ("Theorems for every pattern and subject: the pattern text produced for a glob (resp. LIKE) parses, in the model's regex "
                 "parser, to the anchored atom chain in which `*`/`%` is any run of characters, `?`/`_` exactly one and every other character "
                 "— regex metacharacters included — itself (glob_pattern_parses, like_pattern_parses), and matching that chain is the "
                 "textbook whole-string, case-folding match (glob_end_to_end, like_end_to_end); `!=`, `notlike`, `!=~`, `!==` are the exact "
                 "complements of `=`, `like`, `=~`, `===` per atom; `===`/`!==` compare the literal text; a comparison gives the same verdict "
                 "with any cache satisfying the invariant as with an empty one. External: the regex crate itself (validated in-process on "
                 "every run, 4 000–60 000 pattern/subject pairs, and through the CLI); user regexes (`=~`) on the modelled fragment only."),
        "ref": "DESIGN.md §4 C12",
    },
    "C13": {
        "technique": "Lean 4 theorems on parse_datetime's interval construction and the date comparison table (interval spans per precision, cmp_table, trichotomy, rejection of out-of-range fields, relative days, scanner lemmas; civil_from_days ∘ days_from_civil = id on valid dates for every year, hence printing inverts reading) + CLI correspondence on an edge-time grid in three fixed-offset and three daylight-saving zones + Python datetime oracle",
        "text": ("Theorems for every valid civil date and in-range clock fields: a literal at day/hour/minute/second precision denotes "
                 "[a, a+span-1] with span 86400/3600/60/1 and a ≤ b; for every entry time t: = ⟺ a ≤ t ≤ b, != its complement, < ⟺ t < a, "
                 "> ⟺ t > b, <= ⟺ t ≤ b, >= ⟺ t ≥ a, and exactly one of <, =, > holds; out-of-range fields and impossible dates are a "
                 "status-2 error (D56 fixed); today/yesterday denote whole local days relative to the clock parameter; the DATE_REGEX scanner "
                 "reads YYYY-MM-DD with either separator for arbitrary digits; civil_roundtrip: civil_from_days(days_from_civil(y,m,d)) = (y,m,d) "
                 "for every valid date of every year (structured omega proof over the era decomposition), so format_inverts_literal: the entry "
                 "whose time is the instant a full-precision literal denotes prints exactly that literal's fields, and days_injective: "
                 "different dates denote disjoint day intervals. That chrono computes these algorithms, and the local-time offset (fixed and "
                 "daylight-saving zones, offset per instant taken from glibc), are tied by correspondence on a grid of edge times in six "
                 "zones; chrono-english free-form dates are outside the model. Relative literals (today, yesterday, ±N) are checked under the real clock and under wall clocks fixed by an LD_PRELOAD shim on 29 February, the last and first day of a year, the last day of a 30-day month and 1 March; the model is told the same day."),
        "ref": "DESIGN.md §4 C13",
    },
    "C14": {
        "technique": "Lean 4 theorems unit_table and fraction_table over the generated parse_filesize ladder (decide over generated table × documentation table, lifted by a lemma about any well-formed ladder; parse∘show lemmas for u64 and f64; plain decimals scaled in integers) + in-process and CLI correspondence + multiplier/round-trip/monotonicity oracles",
        "text": ("Theorems: for every natural n and every documented unit u (k, kib, kb, m, mib, mb, g, gib, gb, t, tib, tb, b), "
                 "parse_filesize(\"<n><u>\") = n × the documented multiplier while the product fits in u64 — proved from two `decide` facts "
                 "over the ladder regenerated from the Rust source on every run (well-formedness; first matching rung = the unit with the "
                 "documented multiplier) and a general lemma about well-formed ladders; letter case is irrelevant. fraction_table: "
                 "\"<digits>.<digits><u>\" = floor(decimal × multiplier), exactly, for up to 38 fraction digits and scaled digits within "
                 "u128, saturating at u64::MAX (true since the D67 fix; the flag that the float rungs go through scale_size is read "
                 "from the source on every run). Exponent forms and longer fractions take the f64 route (model in ℚ, within one byte). "
                 "The FORMAT_SIZE/fsize specifier grammar is modelled in ℚ (exact on dyadic values, one unit in the last place otherwise) "
                 "and decided by in-process + CLI correspondence; autoScale_spec: without a fixed unit the chosen unit is the number of times the size can be "
                 "divided by the base (1000 with d, else 1024) while still at least the base — the largest unit not exceeding the size — and the value "
                 "shown is below the base; rounding, monotonicity and round-trip within the displayed precision by oracle."),
        "ref": "DESIGN.md §4 C14",
    },
    "C18": {
        "technique": "Lean 4: the follow-mode walker (dfs and bfs, mutual recursion through visit_dir) is defined with NO fuel — accepted by the termination checker on the measure |inode numbers not yet seen| + |queue|, each function returning in its type that the measure did not grow and that visited_dirs is only extended and duplicate-free; theorems read off those types and one-step unfoldings + CLI correspondence + os.listdir/realpath closure oracle",
        "text": ("Theorems for every tree, link graph (cycles, mutual and self links, chains, dangling), root and depth window: the model of "
                 "visit_dir with `symlinks` is a total function without fuel, i.e. the search terminates (every descent or queue push "
                 "consumes one unseen inode number; the queue loop lowers the measure at each iteration); visited_dirs (canonical paths) "
                 "never contains a directory twice and a directory already in it is returned from without reading it, so every distinct "
                 "real directory is traversed at most once per query, in dfs, bfs and over a whole root; entering a directory records its "
                 "canonical path first; a relative link target is joined to the link's own directory, an absolute one taken as is; a "
                 "link that does not resolve to a directory contributes its own row only; without the option links are not entered "
                 "(C01). PARTIAL: completeness (all entries behind links are found), equality of the bfs/dfs entry sets and status 0 / "
                 "empty stderr are decided by the correspondence and the realpath-closure oracle, not proved; columns whose value is read "
                 "through the link (size, mode, ... follow links in this mode) are outside the model (name/path/abspath/dir/ext only). "
                 "Defects D27 (panic above the root), D43 (relative targets), D44/D45 (links to non-directories), D46 (duplicates) "
                 "were repaired in /repo."),
        "ref": "DESIGN.md §4 C18",
    },
    "C19": {
        "technique": "Lean 4 theorems on the archive member loop and member columns (loop = fold of check_file over the member table; LIMIT prefix; column specifications) + CLI correspondence with zipfile-read member tables + metamorphic oracle",
        "text": ("Theorems: without a streamed LIMIT (no limit, or buffered query — D13 fixed) the member loop is exactly the left fold of "
                 "check_file over the member table, so each member is examined exactly once in table order; under a streamed LIMIT it stops "
                 "exactly when the limit is reached; member columns name/path/size/is_dir/mode have their documented values and columns "
                 "unavailable for members are empty; the member loop is part of reporting an entry and depends on the depth window only through the "
                 "mindepth gate, never on maxdepth (members_independent_of_maxdepth, archive_report). The zip reader is external (member tables are snapshot input read with Python's "
                 "zipfile). 'Ordinary rows unchanged by `archives`', ORDER BY/LIMIT uniformity, wrong/upper-case extensions and corrupt "
                 "archives (truncations, byte flips: no abort, no lost row) are decided by correspondence and oracles."),
        "ref": "DESIGN.md §4 C19",
    },
    "C04": {
        "technique": "Lean 4 theorems over the generated mode.rs predicates and constants (bit lemmas: each permission predicate is one testBit, S_IFMT mask = type nibble), formatMode = independently defined ls -l string for every mode in ℕ, permission booleans read off the string, one-hot file-type booleans, list lemmas for name/dir/path/ext decomposition, extension-class specification + exhaustive in-process sweep of all 65 536 mode values and of capability vectors (model vs mode.rs/capabilities.rs vs Python) + on-disk correspondence and lstat/hashlib/pwd/grp/getxattr oracle",
        "text": ("Theorems for every mode value (all of ℕ; the predicates and S_I* constants are regenerated from mode.rs on every run): "
                 "format_mode is the ls -l string defined independently by arithmetic (type character from bits 12..15, rwx triples with "
                 "s/S, s/S, t/T), it has ten characters, the twelve permission/suid/sgid/sticky predicates are exactly what the string shows "
                 "at their positions, *_all are the conjunctions, and for an entry whose kind is the one its type nibble denotes the seven "
                 "file-type columns are one-hot and name the string's first character; zip members use the same predicates on the stored "
                 "mode. name/dir/path/ext: the last component of dir/name is name, its parent is dir, a non-empty extension is what follows "
                 "the last dot of a name with a non-empty stem (and contains no dot), no dot means no extension; is_hidden/is_empty/size/uid/"
                 "gid/inode/hardlinks/blocks/modified columns are the entry's attributes; an extension-class column is true exactly when the "
                 "lower-cased name ends with an entry of the active configuration's list. NOT theorems (external code or OS, compared with "
                 "independent implementations on every run): SHA-1/2/3 digests, the line_count/is_shebang/CONTAINS readers (sizes across "
                 "8 KiB/32 KiB/64 KiB boundaries), owner names, xattrs, lstat itself; the capability decoder is modelled (over the generated "
                 "capability table) and validated exhaustively per capability/flag against capabilities.rs and a Python decoder, without a "
                 "separate specification theorem."),
        "ref": "DESIGN.md §4 C04",
    },
    "C11": {
        "technique": "Lean 4 theorems decided over generated tables: every alias group transcribed from docs/usage.md (regenerated each run) resolves through the alias tables extracted from field.rs/function.rs/operators.rs/query.rs/lexer.rs to one constructor, groups are pairwise distinct; case-insensitivity lemmas for every recogniser (for all words); select-list loop lemmas (optional select/commas, *), bracket-kind lemma, nullary call without brackets + in-process metamorphic comparison of Parser::parse across renderings + model correspondence + sampled row comparison",
        "text": ("Theorems: for every alias group of the documentation (80 column groups, 56 function groups, 13 operator groups, 5 arithmetic "
                 "words, 13 root options, 6 formats) all spellings are recognised and denote the same constructor, and different groups "
                 "different constructors (the statement is re-decided against the regenerated code and doc tables on every run); for ALL "
                 "words, recognition of a column, function, operator, arithmetic word, format, root option or lexer keyword depends only on "
                 "the lower-cased word; the select-list loop skips `select` and commas and expands `*`; round and curly brackets give the "
                 "same tree; an argument-less function with and without `()` is the same expression (D31 fixed); `asc` is a keyword "
                 "producing no token. PARTIAL: invariance under splitting into shell words is FALSE in general (D01, known finding, pinned "
                 "by the repository's own test) and is therefore not a theorem; for renderings that keep root-position words alone, and "
                 "for the combinations of case/alias/bracket/optional-token renderings of whole generated queries, equality of the parsed "
                 "Query (in-process) and of the rows is decided by the metamorphic check. At the lexer: quoted_literal_is_one_token — whatever stands "
                 "between single or double quotes (blanks, commas, brackets, operators, keywords, the other quote) becomes the text of one String "
                 "token in every lexer context, by induction over the text against the well-founded scanning loop; expression_test_case_insensitive — the lexer's looks_like_expression test on a pending token (SIZE*2 vs size*2) does not depend on letter case; the other context flags of "
                 "the lexer are covered by the model correspondence only. D63 fixed (root option `regexp`/any-case `RX`). boolean_without_brackets — a boolean function "
                 "written without brackets is the call without arguments and leaves the next token alone (D84 fixed). comma_announces_root_only_in_root_list — by functional induction over next_lexem: a comma leaves possible_search_root set only after FROM with neither WHERE nor BY seen, so the commas of the select list, of conditions and of GROUP BY / ORDER BY never make the next shell word a path (D81 fixed). documented_names_pass_expression_test — every documented column and function spelling passes the lexer's expression test (decided over the regenerated doc tables; false before D82). D81 fixed (a comma between ORDER BY / GROUP BY "
                 "terms no longer announces a root path: the list half of D01), D82 fixed (names with an underscore before an arithmetic sign), D83 fixed (rx / regexp "
                 "directly after the path); for forms taken from the documentation tables the check also demands that the canonical spelling parses."),
        "ref": "DESIGN.md §4 C11",
    },
    "C15": {
        "technique": "Lean 4 theorems: parser correctness for the whole arithmetic grammar E/T/F (mutual structural induction over derivations against the well-founded mutual recursive-descent model: precedence, left associativity, brackets, calls; atoms for literals/columns/quoted/negated), evaluator compositionality, memo locality and frame theorems (mutual induction over Expr) giving independence of a column from unrelated columns + CLI correspondence + independent IEEE-754 evaluation in Python + select-list permutation/alone metamorphic oracle",
        "text": ("Theorems: for EVERY derivation of E ::= E(+|-)T | T, T ::= T(*|/|%)F | F, F ::= atom | (E) | fn(E) — any depth and length — "
                 "parse_add_sub on its token sequence returns the tree the derivation denotes (same-level operators nested to the left, "
                 "multiplicative below additive, brackets overriding) and leaves exactly the following tokens; numbers, columns, quoted text "
                 "and their negations are atoms. Evaluation: the value of l op r is calc of the values of l and r; a literal never reads "
                 "the per-row cache (D61 fixed); -column is 0 - column (D39 fixed); the value of an expression depends on the cache only "
                 "through the display texts of its own sub-expressions (locality), and an evaluation writes only those keys (frame), hence "
                 "evaluating any other columns whose keys are disjoint first does not change a column's value; a WHERE comparison evaluates "
                 "both operands and compares the values. PARTIAL: when two columns share a sub-expression the second is answered from the "
                 "cache with the first value's text; that this text denotes the same number is decided by correspondence and the "
                 "permutation/alone oracle, not proved (it is false for booleans used in arithmetic, outside the quantifier). The lexer's "
                 "operator/expression disambiguation is modelled and compared in-process (C10) but not proved. Known finding D62: the "
                 "cache key (display text) does not quote literals (counterexample theorem)."),
        "ref": "DESIGN.md §4 C15",
    },
    "C16": {
        "technique": "Lean 4 theorems on the scalar-function model (list lemmas for TRIM/SUBSTR/REPLACE incl. fuel sufficiency by induction, base64 round trip by 3-byte induction over a decided 64-entry table, positional-notation correctness of BIN/HEX/OCT by strong induction, composition through the evaluator, totality) + in-process sweep model vs function::get_value + independent Python implementation of the documented meaning + CLI composition",
        "text": ("Theorems for every argument string: LENGTH counts characters; TRIM/LTRIM/RTRIM remove exactly a maximal white-space run at "
                 "the respective ends; SUBSTR(s,p), SUBSTR(s,p,n) and SUBSTR(s,-k) are drop/take at the 1-based position resp. the last k "
                 "characters; REPLACE with a non-empty needle satisfies the left-to-right scanning equations for strings of any length "
                 "(the model's fuel always suffices) and is the identity when the needle is absent; CONCAT/CONCAT_WS/COALESCE; decoding the "
                 "base64 encoding of any byte sequence returns it; the digits printed by BIN/HEX/OCT denote the argument (two's complement "
                 "for negatives); ABS/LEAST/GREATEST; YEAR/MONTH/DAY of an argument that reads as a date whose first second is y-mo-d h:mi:s are y, mo, d for "
                 "every valid civil date of every year, DAYOFWEEK its weekday (date_parts_spec, via civil_roundtrip), an argument that is no date gives an empty value; the value of F(G(x)) is F applied to the text of the value of G(x); every call yields a "
                 "value or a status-2 diagnostic. NOT theorems (external tables/libm/crates, compared with Python on every run): Unicode case "
                 "mapping of LOWER/UPPER/INITCAP (modelled for ASCII, Latin-1, Cyrillic), POWER/SQRT/LOG/LN/EXP beyond exact cases, "
                 "FORMAT_TIME, the UTF-8 codec inside the base64 functions, and that chrono computes the same civil date as the model's "
                 "algorithm (compared with Python's calendar for every day of 1900..2100 in the thorough tier)."),
        "ref": "DESIGN.md §4 C16",
    },
    "C17": {
        "technique": "Lean 4 theorems by mutual structural induction over trees with unlistable directories (walker result = check_file folded over the visible events; error state gains exactly the failing directories; visible events = healed tree's events minus entries with an unlistable proper ancestor; rows depend on events only; breadth-first = the same rows and failing directories as depth-first), content-fault locality over the ~80-arm column evaluator + CLI correspondence run as uid 65534 + fault injection (pipe closed at byte k, strace EPIPE at write k) with a no-crash/status oracle",
        "category": "proof",
        "text": ("Theorems for every finite tree with any number and position of unlistable directories and every depth window (depth-first, "
                 "no streamed LIMIT): the searcher's result is check_file folded over the events of the faulty tree and the error counter/"
                 "paths gain exactly one entry per failing directory met; those events are the events of the same tree with all directories "
                 "listable minus exactly the entries below a failing directory (the failing directory's own row stays), and rows are a "
                 "function of the events only; a tree without faults records nothing; status = 1 iff something was recorded. An entry whose "
                 "content cannot be read differs from the readable entry only in line_count/sha*/is_shebang/has_xattrs (proved over every "
                 "column of the generated Field table) and those are empty; CONTAINS is empty. Breadth-first (the default): the queue loop "
                 "reports the level order of the faulty tree and records exactly its failing directories, and both are permutations of the "
                 "depth-first run's (bfs_root_exact_with_faults, bfs_faults_same_as_dfs, bfs_rows_same_as_dfs). PARTIAL: the ordered/"
                 "aggregated result paths on faulty trees are decided by correspondence with the model (binary and snapshot both as uid "
                 "65534) and by the filtered-fault-free-run oracle, not by theorems; 'vanished during the search' is not provoked. The "
                 "closed-stdout clause is runtime behaviour (kernel pipe + Rust LineWriter) that the model cannot exhibit: it is decided by "
                 "fault enumeration only (reader closes a 4 KiB pipe after k bytes for 6 formats x 4 result paths — every k in the thorough "
                 "tier; strace-injected EPIPE from the k-th write on a FIFO) with the oracle no panic, status 0 or 1, delivered bytes are a "
                 "prefix of the full output."),
        "ref": "DESIGN.md §4 C17",
    },
    "C20": {
        "technique": "Lean 4 theorems: the walker with ignore rules is the walker on the pruned tree (model defined by pruning, so C01/C17 theorems transfer), pruned events = visible events of the whole tree (mutual induction with a hidden flag), docker last-match-wins = fold (induction), option/config/no-override table, verdict depends on the canonical path only + CLI correspondence (hg/docker pattern compilers and upstream search modelled through the regex fragment; git's verdict a snapshot fact from `git check-ignore`) + reference matchers for Mercurial and Docker semantics",
        "text": ("Theorems for every tree, rule set and depth window: the entries reported with ignore rules are the entries reported "
                 "without them minus exactly those that are ignored themselves or lie below an ignored directory; with no rule set "
                 "nothing is removed; a .dockerignore verdict is that of the last matching pattern (D53 fixed), an .hgignore ignores "
                 "what any pattern matches; option on / `no…` / configuration default resolve as documented; the verdict depends on the "
                 "entry only through its canonical path, hence not on the spelling of the root. PARTIAL: that the compiled patterns "
                 "mean what the tools mean is not a theorem — the glob→regex compilers, the search for the ignore file in the ancestors "
                 "and libgit2 are compared on every run with `git check-ignore` and with reference matchers of Mercurial's and Docker's "
                 "documented semantics for the generated pattern subset (literal, *.ext, dir/, dir/*.ext, **/name, ?, comments, blanks, "
                 "exceptions in either order, syntax sections, ^-rooted and unrooted regexps). Not covered: exceptions re-including entries "
                 "below an excluded directory (the walker never descends there), subinclude, several roots with ignore rules, ignore rules "
                 "together with `symlinks`. Defects D48–D54, D64, D65 were repaired in /repo."),
        "ref": "DESIGN.md §4 C20",
    },
}

NOT_YET = {}


def main():
    props = [json.loads(l) for l in open(os.path.join(VERIF, "properties.jsonl"))]
    ids = [p["id"] for p in props]
    checks = []
    for pid in ids:
        if pid not in CLAIMS:
            continue
        c = CLAIMS[pid]
        checks.append({
            "property_id": pid,
            "quick_cmd": "python3 tools/verif.py check %s --tier quick" % pid,
            "thorough_cmd": "python3 tools/verif.py check %s --tier thorough" % pid,
            "evidence_file": "evidence/%s.json" % pid,
            "replay_cmd_template": "python3 tools/verif.py replay {path}",
            "engine": "lean-model",
            "technique": c["technique"],
            "level_claimed": {"category": c.get("category", "proof"), "text": c["text"], "design_ref": c["ref"]},
            "level_note": COMMON_NOTE,
        })
    claimed = [c["property_id"] for c in checks]
    na = [{"property_id": pid, "reason": NOT_YET.get(pid, "not claimed yet: the model covers it but the property theorems and check are still being built (see DESIGN.md §8)")}
          for pid in ids if pid not in CLAIMS]
    man = {
        "version": 1,
        "setup_cmd": "python3 tools/verif.py setup",
        "hooks": {
            "guard": "fselect_verif",
            "enable": "none needed: no hook is compiled into /repo; the aux harness #[path]-includes /repo/src (RUSTFLAGS=\"--cfg fselect_verif\" is reserved)",
            "baseline_off_cmd": "cd /repo && cargo test --workspace --no-fail-fast --offline",
            "source_commits": [],
            "add_only": True,
        },
        "engines": [
            {"name": "lean-model", "path": "lean/", "serves_properties": claimed,
             "kind_free_text": "hand-written executable Lean 4 model (Fsel/Model) + theorems (Fsel/Props/Cxx.lean, helper lemmas in Fsel/Lemmas), generated tables (Fsel/Gen/Tables.lean) from tools/extract_tables.py"},
            {"name": "cli-correspondence", "path": "tools/", "serves_properties": claimed,
             "kind_free_text": "differential runs of the dev-profile binary vs the model driver (lean_exe fsmodel) on generated snapshots, plus independent Python oracles"},
            {"name": "aux-harness", "path": "harness/", "serves_properties": [p for p in claimed if p in ("C02", "C03", "C07", "C10", "C12", "C13", "C14", "C04", "C15", "C16", "C11")],
             "kind_free_text": "in-process Rust harness that #[path]-includes /repo/src (pure functions at high volume)"},
        ],
        "checks": checks,
        "not_applicable": na,
        "notes": "Machine-checked proof in Lean 4 about a model; tie to the code by translator + correspondence. See DESIGN.md.",
    }
    with open(os.path.join(VERIF, "MANIFEST.json"), "w") as f:
        json.dump(man, f, indent=1, ensure_ascii=False)
    print("MANIFEST: %d checks, %d not_applicable" % (len(checks), len(na)))


if __name__ == "__main__":
    main()
