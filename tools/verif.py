#!/usr/bin/env python3
"""Orchestrator.  usage:
     verif.py setup
     verif.py check <Cxx> [--tier quick|thorough]
     verif.py replay <path>
   Output contract: exit 0 if the property held on everything explored (KNOWN-FINDING lines allowed),
   exit 1 with `VIOLATION property=<id> replay=<path>[ no-failing-input-found]` otherwise.
"""
import importlib
import json
import os
import sys
import time
import traceback

sys.path.insert(0, os.path.dirname(os.path.abspath(__file__)))
import common  # noqa: E402
from common import Rng  # noqa: E402


class Ctx:
    def __init__(self, prop, tier, seed):
        self.prop = prop
        self.tier = tier
        self.seed = seed
        self.rng = Rng(seed ^ (int(prop[1:]) * 0x9E3779B97F4A7C15))
        self.model = common.model()
        self.harness = None
        self.harness_ok = False
        self.harness_note = ""
        self.stats = {}            # counters / histograms
        self.samples = []
        self.disagreements = []    # model != implementation
        self.oracle_failures = []  # implementation violates the property (dicts with 'finding' or None)
        self.known_hits = {}       # finding id -> description of a reproduced known finding
        self.notes = []
        self.cases = 0
        self.distinct = set()
        self.t0 = time.time()
        self.budget_s = None

    def count(self, key, n=1):
        self.stats[key] = self.stats.get(key, 0) + n

    def hist(self, name, key):
        h = self.stats.setdefault(name, {})
        h[str(key)] = h.get(str(key), 0) + 1

    def sample(self, case, every=1):
        if len(self.samples) < 6 and (self.cases % every == 0):
            self.samples.append(case)

    def case(self, key=None):
        self.cases += 1
        if key is not None:
            self.distinct.add(key)

    def disagree(self, relation, case, model_says, impl_says):
        self.disagreements.append({"relation": relation, "case": case, "model": model_says, "impl": impl_says})

    def oracle_fail(self, what, case, finding=None, detail=None):
        self.oracle_failures.append({"what": what, "case": case, "finding": finding, "detail": detail})

    def time_left(self):
        if self.budget_s is None:
            return 1e9
        return self.budget_s - (time.time() - self.t0)

    def close(self):
        self.model.close()
        if self.harness:
            self.harness.close()


def setup():
    ok, msg = common.extract_tables()
    print(msg)
    if not ok:
        print("setup: table extraction failed")
        return 1
    try:
        common.build_lean(["Fsel", "fsmodel"])
        common.build_fselect()
    except common.BuildError as e:
        print(e.log[-3000:])
        print("setup: build failed: %s" % e.what)
        return 1
    okh, out = common.build_harness()
    if not okh:
        print("setup: aux harness did not build (checks will use the CLI correspondence only)")
    print("setup: ok")
    return 0


def check(prop, tier, seed):
    t0 = time.time()
    stale = os.path.join(common.REPLAYS, "%s-violation.json" % prop)
    if os.path.exists(stale):
        os.remove(stale)
    ctx = Ctx(prop, tier, seed)
    mod = importlib.import_module("props." + prop)
    proof_problems = []
    build_problem = None
    # 0. rebuild from /repo's working tree
    ok, msg = common.extract_tables()
    if not ok:
        proof_problems.append("table translator: " + msg)
    audit = {"ok": False, "problems": ["not run"], "obligations": 0, "discharged": 0, "theorems": [], "axioms": {},
             "counterexamples": [], "partials": [], "checker_cmd": ""}
    model_ok = True
    try:
        common.build_lean(["fsmodel"])
    except common.BuildError as e:
        model_ok = False
        proof_problems.append("model no longer builds against the regenerated tables: " + e.log[-1500:])
    try:
        common.build_fselect()
    except common.BuildError as e:
        build_problem = e
    if build_problem is not None:
        # a tree that does not compile is outside the contract; report as such (not a violation)
        print("ERROR: /repo does not build:\n" + build_problem.log[-2000:])
        ctx.close()
        return 2
    okh, hout = common.build_harness()
    if okh:
        ctx.harness = common.harness()
        ctx.harness_ok = True
    else:
        ctx.harness_note = "aux harness did not compile; CLI correspondence only"
    # 1. proof audit
    audit = common.proof_audit(prop, thorough=(tier == "thorough"))
    if not audit["ok"]:
        proof_problems += audit["problems"]
    # 2/3. correspondence + oracle
    ctx.model_ok = model_ok
    crashed = None
    try:
        mod.run(ctx)
    except Exception:
        crashed = traceback.format_exc()
    finally:
        ctx.close()
    # 4. verdict
    known = {k["id"]: k for k in common.load_known_findings() if k.get("property") == prop or prop in k.get("properties", [])}
    new_failures = []
    for f in ctx.oracle_failures:
        fid = f.get("finding")
        if fid and fid in known and known[fid].get("status") == "known":
            ctx.known_hits.setdefault(fid, f)
        else:
            new_failures.append(f)
    violation = None
    if crashed:
        # the machinery itself failed: never claim a violation of the property on that basis alone
        print("ERROR: check machinery crashed:\n" + crashed)
    if new_failures:
        f = new_failures[0]
        path = common.write_replay(prop, "violation", {"property": prop, "kind": "oracle-failure", "what": f["what"],
                                                        "case": f["case"], "detail": f["detail"], "seed": seed,
                                                        "more": len(new_failures) - 1})
        violation = "VIOLATION property=%s replay=%s" % (prop, path)
    elif proof_problems or ctx.disagreements:
        rel = []
        if proof_problems:
            rel.append({"kind": "proof-obligation", "problems": proof_problems,
                        "failing_locations": audit.get("failing_locations"), "log": audit.get("log")})
        for d in ctx.disagreements[:5]:
            rel.append({"kind": "correspondence", **d})
        path = common.write_replay(prop, "violation", {"property": prop, "kind": "no-failing-input-found",
                                                        "unchecked": rel, "seed": seed,
                                                        "searched": ctx.cases})
        violation = "VIOLATION property=%s replay=%s no-failing-input-found" % (prop, path)
    for fid, f in sorted(ctx.known_hits.items()):
        print("KNOWN-FINDING: property=%s %s %s" % (prop, fid, known[fid].get("what", "")))
    wall = time.time() - t0
    cov = {
        "obligations": max(audit["obligations"], 1),
        "discharged": audit["discharged"],
        "checker_cmd": audit.get("checker_cmd", ""),
        "trusted_base": common.TRUSTED_BASE,
        "theorems": audit["theorems"],
        "partial_theorems": audit["partials"],
        "counterexample_theorems": audit["counterexamples"],
        "axioms": audit["axioms"],
        "tables_digest": common.tables_digest(),
        "programs": ctx.cases,
        "evaluations": max(ctx.cases, 1),
        "distinct_nontrivial": (lambda nt: len(nt) if nt else len(ctx.distinct))(
            [k for k in ctx.distinct if isinstance(k, tuple) and k and k[-1] == "nt"]),
        "distinct_cases": len([k for k in ctx.distinct if not (isinstance(k, tuple) and k and k[-1] == "nt")]),
        "rule": getattr(mod, "RULE", ""),
        "disagreements_checked": len(ctx.disagreements),
        "oracle_failures_new": len(new_failures),
        "known_findings_reproduced": sorted(ctx.known_hits),
        "samples": ctx.samples or [{"note": "no case sampled"}],
        "distribution": ctx.stats,
        "aux_harness": ctx.harness_ok,
        "notes": ctx.notes + ([ctx.harness_note] if ctx.harness_note else []) + (["machinery crashed"] if crashed else []),
        "proof_problems": proof_problems,
    }
    common.write_evidence(prop, tier, seed, cov, wall, 1 if violation else 0)
    if violation:
        print(violation)
        return 1
    if crashed:
        return 2
    print("OK property=%s tier=%s cases=%d theorems=%d wall=%.1fs" % (prop, tier, ctx.cases, audit["obligations"], wall))
    return 0


def replay(path):
    obj = json.load(open(path))
    prop = obj.get("property")
    mod = importlib.import_module("props." + prop)
    common.build_fselect()
    if hasattr(mod, "replay"):
        return mod.replay(obj)
    print(json.dumps(obj, indent=1)[:4000])
    return 0


def main():
    if len(sys.argv) < 2:
        print(__doc__)
        return 2
    cmd = sys.argv[1]
    if cmd == "setup":
        return setup()
    if cmd == "check":
        prop = sys.argv[2]
        tier = os.environ.get("VERIF_TIER", "quick")
        if "--tier" in sys.argv:
            tier = sys.argv[sys.argv.index("--tier") + 1]
        seed = int(os.environ.get("VERIF_SEED", "20260929"))
        return check(prop, tier, seed)
    if cmd == "replay":
        return replay(sys.argv[2])
    print(__doc__)
    return 2


if __name__ == "__main__":
    sys.exit(main())
