"""CLI-boundary correspondence: the model's `run` vs the dev binary on the same snapshot."""
import json
import os
import re

import common
import fstree
from common import hx, unhx


class Snap:
    """a materialised tree + its snapshot, sent to the model once"""

    def __init__(self, scratch, entries=None, root=None, tz="UTC", content_facts=True, subdir="t", as_nobody=False,
                 after_materialise=None):
        self.scratch = scratch
        self.root = root or os.path.join(scratch, subdir)
        if not os.path.exists(self.root):
            os.makedirs(self.root)
        if entries is not None:
            fstree.materialise(self.root, entries)
        self.tz = tz
        self.as_nobody = as_nobody
        if after_materialise:
            after_materialise(self.root)
        if as_nobody:
            # the facts (what can be listed / read) are those of the unprivileged user the search runs as
            import subprocess
            import snap_as
            p = subprocess.run(["setpriv", "--reuid=65534", "--regid=65534", "--clear-groups", "/usr/bin/python3",
                                os.path.join(common.TOOLS, "snap_as.py"), self.root],
                               stdout=subprocess.PIPE, stderr=subprocess.PIPE, timeout=120)
            if p.returncode != 0:
                raise RuntimeError("snapshot as nobody failed: " + p.stderr.decode("utf-8", "replace")[-500:])
            obj = snap_as.dec(json.loads(p.stdout))
            self.top, self.nodes = obj["top"], obj["nodes"]
        else:
            self.top, self.nodes = fstree.snapshot(self.root, content_facts=content_facts)
        self.sent_to = None

    def send(self, model, cwd=None, cfg=None):
        cwd = cwd or self.root
        ok = fstree.send_snapshot(model, self.root, self.top, self.nodes, cwd, self.tz)
        # `fake_epoch` (set by a check on the Snap): the wall clock both sides run under (implementation: LD_PRELOAD shim)
        cfgline = "cfg\ttoday=%d" % fstree.model_today(self.tz, getattr(self, "fake_epoch", None))
        for k, v in (cfg or {}).items():
            if isinstance(v, list):
                cfgline += "\t%s=%s" % (k, ",".join(hx(x) for x in v))
            elif isinstance(v, bool):
                cfgline += "\t%s=%d" % (k, 1 if v else 0)
            else:
                cfgline += "\t%s=%s" % (k, hx(v))
        ok = ok and model.ask_raw(cfgline) == "ok"
        self.sent_to = (model, cwd)
        return ok


def model_run(model, argv):
    r = model.ask("run", *argv)
    parts = r.split(" ")
    if parts[0] == "exit":
        errs = [unhx(x) for x in parts[4].split(",")] if len(parts) > 4 and parts[4] else []
        flags = parts[3].split(":")
        ties = [int(x) for x in flags[1].split(",")] if len(flags) > 1 and flags[1] else []
        return {"kind": "exit", "status": int(parts[1]), "out": unhx(parts[2]), "inexact": flags[0] == "1",
                "ties": ties, "unordered": bool(ties), "errs": errs}
    if parts[0] == "unsupported":
        return {"kind": "unsupported", "why": " ".join(parts[1:])}
    return {"kind": "error", "raw": r[:200]}


NEG_ZERO = re.compile(rb"(?<![\w.+-])-0(?![\w.])")
NUM_RE = re.compile(rb"-?\d+(?:\.\d+)?(?:e-?\d+)?|\?[-0-9.]*|NaN|-?inf")


def approx_equal(a, b, rel=1e-9):
    """byte strings equal up to float rendering: numbers compared with relative tolerance; `?` in the
    model text (a) stands for any number"""
    ta = NUM_RE.split(a)
    tb = NUM_RE.split(b)
    if ta != tb:
        return False
    na = NUM_RE.findall(a)
    nb = NUM_RE.findall(b)
    if len(na) != len(nb):
        return False
    for x, y in zip(na, nb):
        if x.startswith(b"?"):
            continue
        if x == y:
            continue
        try:
            fx = float(x)
            fy = float(y)
        except ValueError:
            return False
        if fx != fx and fy != fy:
            continue
        if abs(fx - fy) > rel * max(1.0, abs(fx), abs(fy)):
            # a rendering the model flagged inexact may differ by one unit in the last printed place
            dx = len(x.split(b".")[1]) if b"." in x else 0
            dy = len(y.split(b".")[1]) if b"." in y else 0
            if dx == dy and b"e" not in x and abs(fx - fy) <= 10 ** (-dx) * 1.0000001:
                continue
            return False
    return True


def split_rows(out, fmt, ncols=None):
    """rows of an output stream (used to compare outputs whose row order is unspecified)"""
    if fmt == "json":
        try:
            return [json.dumps(r, sort_keys=True) for r in json.loads(out.decode("utf-8"))]
        except Exception:
            return None
    if fmt == "html":
        return re.findall(rb"<tr>.*?</tr>", out, re.S)
    if fmt == "csv":
        import csv
        import io
        try:
            return [repr(rw).encode() for rw in csv.reader(io.StringIO(out.decode("utf-8"), newline=""), strict=True)]
        except Exception:
            return None
    if fmt in ("list", "lines"):
        if not ncols:
            return None
        sep = b"\0" if fmt == "list" else b"\n"
        vals = out.split(sep)
        if vals and vals[-1] == b"":
            vals = vals[:-1]
        if len(vals) % ncols != 0:
            return None
        return [sep.join(vals[i:i + ncols]) for i in range(0, len(vals), ncols)]
    rows = out.split(b"\n")
    rows = rows[:-1] if rows and rows[-1] == b"" else rows
    if ncols and any(rw.count(b"\t") != ncols - 1 for rw in rows):
        return None      # a value contains a separator: rows are ambiguous in this format
    return rows


def compare(model_res, impl, fmt="tabs", ncols=None):
    """returns None when the observable behaviour agrees, else a short description"""
    if model_res["kind"] != "exit":
        return None
    if impl["timed_out"]:
        return "implementation timed out"
    if common.panicked(impl):
        return "implementation panicked"
    if impl["status"] != model_res["status"]:
        return "exit status %s vs model %s" % (impl["status"], model_res["status"])
    mo, io = model_res["out"], impl["out"]
    if mo != io:
        # the model computes in ℚ, which has no signed zero: a cell `-0` is the same value as `0`
        mo = NEG_ZERO.sub(b"0", mo)
        io = NEG_ZERO.sub(b"0", io)
    if mo != io:
        ok = False
        runs, cut = list(model_res["ties"]), 0
        if len(runs) >= 2 and runs[-2] == 0:
            runs, cut = runs[:-2], runs[-1]
        if model_res["unordered"]:
            a, b = split_rows(mo, fmt, ncols), split_rows(io, fmt, ncols)
            if a is None or b is None:
                # same bytes in some order (rows ambiguous in this format); when a LIMIT cuts through a run of ties the
                # model shows the whole run and there is nothing to compare row by row: no verdict
                ok = True if cut else sorted(mo) == sorted(io)
            elif len(a) == sum(runs) and len(b) == sum(runs) - ((runs[-1] - cut) if cut else 0):
                ok = True
                pos = 0
                for ri, run in enumerate(runs):
                    ka = [x if isinstance(x, bytes) else x.encode() for x in a[pos:pos + run]]
                    kb = [x if isinstance(x, bytes) else x.encode() for x in b[pos:pos + run]]
                    pos += run
                    if cut and ri == len(runs) - 1:
                        # a LIMIT cuts through this run of ties: the implementation shows `cut` of its rows, any of them
                        ka, kb = kb, ka
                        spare = len(kb) - len(ka)
                    else:
                        spare = 0
                    # identical rows pair off first; what is left may pair up to float rendering
                    rest = []
                    for x in ka:
                        if x in kb:
                            kb.remove(x)
                        else:
                            rest.append(x)
                    for x in rest:
                        hit = next((j for j, y in enumerate(kb) if model_res["inexact"] and approx_equal(x, y)), None)
                        if hit is None:
                            ok = False
                            break
                        kb.pop(hit)
                    if ok and len(kb) != spare:
                        ok = False
                    if not ok:
                        break
        elif model_res["inexact"]:
            ok = approx_equal(mo, io)
        if not ok:
            if os.environ.get("VERIF_DEBUG_DUMP"):
                with open(os.environ["VERIF_DEBUG_DUMP"], "ab") as f:
                    f.write(b"=== model (unordered=%r ties=%r inexact=%r)\n" % (model_res["unordered"], model_res["ties"], model_res["inexact"]) + mo + b"\n=== impl\n" + io + b"\n")
            return "stdout differs"
    # stderr: sources named
    errs = model_res["errs"]
    if (len(errs) == 0) != (impl["err"] == b""):
        return "stderr emptiness differs (model names %d sources)" % len(errs)
    for e in errs:
        if (e + b": ") not in impl["err"]:
            return "stderr does not name %r" % e
    return None


def run_case(ctx, snap, argv, fmt="tabs", cwd=None, relation="runMain (model) = fselect (implementation) on the snapshot",
             timeout=10, config=None, extra=None, ncols=None):
    """one CLI correspondence case; returns (model_res, impl_res)"""
    cwd = cwd or snap.root
    fake = getattr(snap, "fake_epoch", None)
    impl = common.run_cli(argv, cwd=cwd, scratch=snap.scratch, tz=snap.tz, timeout=timeout, config=config,
                          as_nobody=getattr(snap, "as_nobody", False),
                          extra_env=common.fake_clock_env(fake) if fake is not None else None)
    mres = None
    if ctx.model_ok:
        if snap.sent_to != (ctx.model, cwd):
            snap.send(ctx.model, cwd)
        mres = model_run(ctx.model, argv)
        ctx.hist("model_outcome", mres["kind"] if mres["kind"] != "exit" else "exit%d" % mres["status"])
        if mres["kind"] == "unsupported":
            ctx.hist("unsupported_why", mres["why"][:40])
        if mres["kind"] == "error":
            ctx.hist("model_error_raw", mres["raw"][:60])
            ctx.disagree(relation + " [model driver gave no outcome]", {"argv": argv}, mres["raw"][:200], "status %s" % impl["status"])
        d = compare(mres, impl, fmt, ncols)
        if d:
            case = {"argv": argv, "tree": [n["rel"] + ("/" if n["kind"] == "d" else "") for n in snap.nodes][:60],
                    "tz": snap.tz}
            if extra:
                case.update(extra)
            mo, io = mres.get("out", b""), impl["out"]
            k = next((j for j in range(min(len(mo), len(io))) if mo[j] != io[j]), min(len(mo), len(io)))
            lo = max(0, k - 120)
            ctx.disagree(relation, case, {"status": mres.get("status"), "out": mo[lo:k + 180].decode("utf-8", "replace"),
                                          "errs": [e.decode("utf-8", "replace") for e in mres.get("errs", [])]},
                         {"status": impl["status"], "out": io[lo:k + 180].decode("utf-8", "replace"), "first_diff_at": k,
                          "err": impl["err"][:300].decode("utf-8", "replace"), "why": d})
    return mres, impl
