"""Independent Python reference for the documented meaning of columns and comparisons
(second implementation: never uses the Lean model)."""
import datetime
import os
import re
import stat

import fstree

UNITS = {"": 1, "b": 1, "k": 1024, "kib": 1024, "kb": 1000, "m": 1024 ** 2, "mib": 1024 ** 2, "mb": 1000 ** 2,
         "g": 1024 ** 3, "gib": 1024 ** 3, "gb": 1000 ** 3, "t": 1024 ** 4, "tib": 1024 ** 4, "tb": 1000 ** 4}


def rust_extension(name):
    if name == "..":
        return ""
    i = name.rfind(".")
    if i <= 0:
        return ""
    return name[i + 1:]


def column(node, col, root_spelling=".", tz="UTC"):
    """text of a column for a snapshot node (as printed by fselect)"""
    name = node["name"]
    path = root_spelling.rstrip("/") + "/" + node["rel"] if root_spelling != "/" else "/" + node["rel"]
    m = node["mode"]
    if col == "name":
        return name
    if col == "path":
        return path
    if col in ("ext", "extension"):
        return rust_extension(name)
    if col in ("dir", "dirname", "directory"):
        return path.rsplit("/", 1)[0] if "/" in path else ""
    if col == "size":
        return str(node["size"])
    if col == "uid":
        return str(node["uid"])
    if col == "gid":
        return str(node["gid"])
    if col == "hardlinks":
        return str(node["nlink"])
    if col == "inode":
        return str(node["ino"])
    if col == "blocks":
        return str(node["blocks"])
    if col == "mode":
        return stat.filemode(m)
    if col == "user":
        return node["user"] or ""
    if col == "group":
        return node["group"] or ""
    if col == "length(name)":
        return str(len(name))
    if col == "line_count":
        return str(node["facts"]["nl"]) if "nl" in node["facts"] else ""
    if col == "modified":
        t = node["mtime"] + fstree.tz_off(tz, node["mtime"])
        return (datetime.datetime(1970, 1, 1) + datetime.timedelta(seconds=t)).strftime("%Y-%m-%d %H:%M:%S")
    b = bool_column(node, col)
    if b is not None:
        return "true" if b else "false"
    for k in ("sha1", "sha256", "sha512", "sha3"):
        if col == k or (col, k) in (("sha2_256", "sha256"), ("sha2_512", "sha512"), ("sha3_512", "sha3")):
            return node["facts"].get(k, "")
    raise KeyError(col)


def bool_column(node, col):
    m = node["mode"]
    k = node["kind"]
    tbl = {
        "is_dir": k == "d", "is_file": k == "f", "is_symlink": k == "l", "is_pipe": k == "p", "is_fifo": k == "p",
        "is_socket": k == "s", "is_char": k == "c", "is_character": k == "c", "is_block": k == "b",
        "is_hidden": node["name"].startswith("."),
        "user_read": bool(m & 0o400), "user_write": bool(m & 0o200), "user_exec": bool(m & 0o100),
        "user_all": m & 0o700 == 0o700, "user_rwx": m & 0o700 == 0o700,
        "group_read": bool(m & 0o40), "group_write": bool(m & 0o20), "group_exec": bool(m & 0o10),
        "group_all": m & 0o70 == 0o70, "group_rwx": m & 0o70 == 0o70,
        "other_read": bool(m & 0o4), "other_write": bool(m & 0o2), "other_exec": bool(m & 0o1),
        "other_all": m & 0o7 == 0o7, "other_rwx": m & 0o7 == 0o7,
        "suid": bool(m & 0o4000), "sgid": bool(m & 0o2000),
    }
    if col in tbl:
        return tbl[col]
    if col == "is_empty":
        if k == "d":
            return bool(node["facts"].get("empty")) if "empty" in node["facts"] else None
        return node["size"] == 0
    if col == "is_shebang":
        return bool(node["facts"].get("sb", 0))
    return None


def size_literal(lit):
    """<number><unit> -> float bytes (None if malformed)"""
    m = re.fullmatch(r"\s*([0-9]+(?:\.[0-9]*)?|\.[0-9]+)\s*([a-zA-Z]*)\s*", lit)
    if not m or m.group(2).lower() not in UNITS:
        return None
    return float(m.group(1)) * UNITS[m.group(2).lower()]


def glob_match(pat, s):
    rx = "".join(".*" if c == "*" else "." if c == "?" else re.escape(c) for c in pat)
    return re.fullmatch(rx, s, re.I | re.S) is not None


def like_match(pat, s):
    rx = "".join(".*" if c == "%" else "." if c == "_" else re.escape(c) for c in pat)
    return re.fullmatch(rx, s, re.I | re.S) is not None


def date_interval(lit, tz="UTC"):
    """(a, b) local seconds of a literal YYYY-MM-DD[ HH[:MM[:SS]]] with - or : date separators"""
    m = re.fullmatch(r"(\d{4})[-:](\d{1,2})[-:](\d{1,2})(?: (\d{1,2})(?::(\d{1,2})(?::(\d{1,2}))?)?)?", lit)
    if not m:
        return None
    y, mo, d = int(m.group(1)), int(m.group(2)), int(m.group(3))
    try:
        base = datetime.datetime(y, mo, d)
    except ValueError:
        return None
    h, mi, s = m.group(4), m.group(5), m.group(6)
    a = base + datetime.timedelta(hours=int(h or 0), minutes=int(mi or 0), seconds=int(s or 0))
    b = base + datetime.timedelta(hours=int(h) if h else 23, minutes=int(mi) if mi else 59, seconds=int(s) if s else 59)
    e = datetime.datetime(1970, 1, 1)
    return int((a - e).total_seconds()), int((b - e).total_seconds())


OPK = {"=": "eq", "==": "eq", "eq": "eq", "!=": "ne", "<>": "ne", "ne": "ne", "===": "eeq", "eeq": "eeq", "!==": "ene",
       "ene": "ene", ">": "gt", "gt": "gt", ">=": "gte", "gte": "gte", "ge": "gte", "<": "lt", "lt": "lt", "<=": "lte",
       "lte": "lte", "le": "lte", "=~": "rx", "~=": "rx", "regexp": "rx", "rx": "rx", "!=~": "notrx", "!~=": "notrx",
       "notrx": "notrx", "like": "like", "notlike": "notlike", "not like": "notlike"}


def num_cmp(op, a, n):
    return {"eq": a == n, "eeq": a == n, "ne": a != n, "ene": a != n, "gt": a > n, "gte": a >= n, "lt": a < n, "lte": a <= n}[op]


def holds(node, col, kind, op, lit, tz="UTC", root_spelling="."):
    """documented truth of `col OP lit` for the entry; None = not decided by this reference"""
    op = OPK[op.lower()]
    if kind == "num":
        v = column(node, col, root_spelling, tz)
        if v == "":
            return None
        n = size_literal(lit)
        if n is None or op not in ("eq", "eeq", "ne", "ene", "gt", "gte", "lt", "lte"):
            return None
        # the unit product is truncated to whole bytes, as documented for size literals
        if re.search(r"[a-zA-Z]", lit):
            n = float(int(n))
        return num_cmp(op, int(v), n)
    if kind == "text":
        s = column(node, col, root_spelling, tz)
        if op == "eq":
            return glob_match(lit, s) if ("*" in lit or "?" in lit) else s == lit
        if op == "ne":
            return not (glob_match(lit, s) if ("*" in lit or "?" in lit) else s == lit)
        if op == "eeq":
            return s == lit
        if op == "ene":
            return s != lit
        if op == "like":
            return like_match(lit, s)
        if op == "notlike":
            return not like_match(lit, s)
        if op in ("rx", "notrx"):
            try:
                # Rust's `$` is end of text only (Python's also matches before a final newline)
                r = re.search(re.sub(r"(?<!\\)\$", r"\\Z", lit), s) is not None
            except re.error:
                return None
            return r if op == "rx" else not r
        return None
    if kind == "bool":
        b = bool_column(node, col)
        words = {"true": True, "1": True, "yes": True, "y": True, "false": False, "0": False, "no": False, "n": False}
        if b is None or lit.lower() not in words or op not in ("eq", "ne", "eeq", "ene"):
            return None
        lb = words[lit.lower()]
        return (b == lb) if op in ("eq", "eeq") else (b != lb)
    if kind == "date":
        iv = date_interval(lit, tz)
        if iv is None:
            return None
        a, b = iv
        t = node["mtime"] + fstree.tz_off(tz, node["mtime"])
        return {"eq": a <= t <= b, "ne": not (a <= t <= b), "lt": t < a, "gt": t > b, "lte": t <= b, "gte": t >= a,
                "eeq": t == a, "ene": t != a}.get(op)
    return None
