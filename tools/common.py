"""Shared infrastructure of the fselect verification machinery (stdlib only)."""
import binascii
import fcntl
import hashlib
import json
import os
import re
import shutil
import subprocess
import sys
import time

VERIF = os.path.dirname(os.path.dirname(os.path.abspath(__file__)))
TOOLS = os.path.join(VERIF, "tools")
REPO = os.environ.get("FSEL_REPO", "/repo")
CACHE = os.path.join(VERIF, ".cache")
LEAN = os.path.join(VERIF, "lean")
TARGET = os.path.join(CACHE, "target")
FSELECT = os.path.join(TARGET, "debug", "fselect")
FSELAUX = os.path.join(TARGET, "debug", "fselaux")
FSMODEL = os.path.join(LEAN, ".lake", "build", "bin", "fsmodel")
SCRATCH_BASE = os.environ.get("VERIF_SCRATCH", "/var/tmp")
EVIDENCE = os.path.join(VERIF, "evidence")
REPLAYS = os.path.join(EVIDENCE, "replays")

CARGO_ENV = dict(os.environ, CARGO_NET_OFFLINE="true", CARGO_TARGET_DIR=TARGET, RUSTFLAGS=os.environ.get("RUSTFLAGS", ""))

TRUSTED_BASE = [
    "Lean 4.33 kernel; axioms allowed: propext, Classical.choice, Quot.sound (audited with #print axioms); no native_decide/bv_decide/sorry/own axioms",
    "hand-written Lean model of the algorithmic code (modelled, not verified): tied to /repo by differential testing at the CLI boundary and in-process (finite samples)",
    "tools/extract_tables.py (Rust tokenizer, cfg evaluation for unix/linux/default features) for the generated code tables; tools/extract_docs.py for the alias groups of docs/usage.md",
    "correspondence harness: snapshot reader (python os/hashlib/zipfile), process runner, canonicaliser",
    "external crates/OS as assumed definitions: regex (a fragment is modelled), serde_json escaping, csv quoting, humansize, chrono fixed-offset local time, zip, libgit2 (verdicts are snapshot input from `git check-ignore`), sha1/sha2/sha3, uzers, xattr, std::fs canonicalize/read_dir/read_link; f64 modelled in ℚ with an exactness flag (no signed zero; exact on integers < 2^53)",
    "dev-profile binary (overflow checks on)",
]


# ------------------------------------------------------------------ PRNG

class Rng:
    """SplitMix64: one state drives every choice; sub-seeds make cases replayable."""

    def __init__(self, seed):
        self.s = seed & 0xFFFFFFFFFFFFFFFF

    def next(self):
        self.s = (self.s + 0x9E3779B97F4A7C15) & 0xFFFFFFFFFFFFFFFF
        z = self.s
        z = ((z ^ (z >> 30)) * 0xBF58476D1CE4E5B9) & 0xFFFFFFFFFFFFFFFF
        z = ((z ^ (z >> 27)) * 0x94D049BB133111EB) & 0xFFFFFFFFFFFFFFFF
        return z ^ (z >> 31)

    def below(self, n):
        return self.next() % n if n > 0 else 0

    def range(self, a, b):
        return a + self.below(b - a + 1)

    def chance(self, num, den):
        return self.below(den) < num

    def choice(self, xs):
        return xs[self.below(len(xs))]

    def sample(self, xs, k):
        xs = list(xs)
        out = []
        for _ in range(min(k, len(xs))):
            out.append(xs.pop(self.below(len(xs))))
        return out

    def shuffle(self, xs):
        xs = list(xs)
        for i in range(len(xs) - 1, 0, -1):
            j = self.below(i + 1)
            xs[i], xs[j] = xs[j], xs[i]
        return xs

    def fork(self):
        return Rng(self.next())


def hx(s):
    if isinstance(s, str):
        s = s.encode("utf-8")
    return binascii.hexlify(s).decode() if s else "-"


def unhx(s):
    return b"" if s == "-" else binascii.unhexlify(s)


# ------------------------------------------------------------------ builds

class BuildError(Exception):
    def __init__(self, what, log):
        super().__init__(what)
        self.what = what
        self.log = log


def _lock(name):
    os.makedirs(CACHE, exist_ok=True)
    f = open(os.path.join(CACHE, name + ".lock"), "w")
    fcntl.flock(f, fcntl.LOCK_EX)
    return f


def run(cmd, cwd=None, env=None, timeout=3600):
    p = subprocess.run(cmd, cwd=cwd, env=env, stdout=subprocess.PIPE, stderr=subprocess.STDOUT, timeout=timeout)
    return p.returncode, p.stdout.decode("utf-8", "replace")


def extract_tables():
    """Regenerate Fsel/Gen/Tables.lean from /repo. Returns (ok, message)."""
    with _lock("tables"):
        rc, out = run([sys.executable, os.path.join(VERIF, "tools", "extract_tables.py")])
        if rc == 0:
            rc2, out2 = run([sys.executable, os.path.join(VERIF, "tools", "extract_docs.py")])
            rc, out = rc2, out + out2
    return rc == 0, out.strip()


def build_lean(targets):
    """lake build of the given targets (module names or exe). Raises BuildError with the log."""
    with _lock("lake"):
        rc, out = run(["lake", "build"] + list(targets), cwd=LEAN)
    if rc != 0:
        raise BuildError("lake build " + " ".join(targets), out)
    return out


def build_fselect():
    """cargo build of /repo's working tree (dev profile) into .cache/target."""
    with _lock("cargo"):
        rc, out = run(["cargo", "build", "--offline", "--manifest-path", os.path.join(REPO, "Cargo.toml")],
                      env=CARGO_ENV)
    if rc != 0 or not os.path.exists(FSELECT):
        raise BuildError("cargo build /repo", out)
    return out


def build_harness():
    """Best effort: the aux harness #[path]-includes /repo/src; an uncompilable harness is reported,
    not fatal (the CLI correspondence remains)."""
    hdir = os.path.join(CACHE, "harness")
    os.makedirs(hdir, exist_ok=True)
    with _lock("cargo"):
        src = open(os.path.join(REPO, "Cargo.toml"), encoding="utf-8").read()
        secs = re.split(r"(?m)^(?=\[)", src)
        keep = [s for s in secs if s.startswith("[features]") or s.startswith("[dependencies]") or s.startswith("[target.")]
        m = re.search(r'(?m)^version\s*=\s*"([^"]+)"', src)
        ver = m.group(1) if m else "0.0.0"
        m = re.search(r'(?m)^edition\s*=\s*"([^"]+)"', src)
        ed = m.group(1) if m else "2021"
        pkg = ('[package]\nname = "fselect"\nversion = "%s"\nedition = "%s"\n\n[[bin]]\nname = "fselaux"\npath = "%s"\n\n'
               % (ver, ed, os.path.join(VERIF, "harness", "src", "main.rs")))
        text = pkg + "".join(keep) + "\n[workspace]\n"
        cur = None
        if os.path.exists(os.path.join(hdir, "Cargo.toml")):
            cur = open(os.path.join(hdir, "Cargo.toml")).read()
        if cur != text:
            open(os.path.join(hdir, "Cargo.toml"), "w").write(text)
        shutil.copyfile(os.path.join(REPO, "Cargo.lock"), os.path.join(hdir, "Cargo.lock"))
        rc, out = run(["cargo", "build", "--offline", "--manifest-path", os.path.join(hdir, "Cargo.toml")], env=CARGO_ENV)
    if rc != 0 or not os.path.exists(FSELAUX):
        return False, out
    return True, out


# ------------------------------------------------------------------ line-protocol processes

class LineProc:
    """Persistent child speaking the line protocol; `ask` has a timeout (a hang of the child is an
    observation, not a failure of the harness)."""

    def __init__(self, argv, name, timeout=20.0):
        self.argv = argv
        self.name = name
        self.p = None
        self.requests = 0
        self.timeout = timeout
        self.buf = b""

    def start(self):
        self.p = subprocess.Popen(self.argv, stdin=subprocess.PIPE, stdout=subprocess.PIPE,
                                  stderr=subprocess.DEVNULL, bufsize=0)
        self.buf = b""

    def _readline(self, timeout):
        import select
        deadline = time.time() + timeout
        while b"\n" not in self.buf:
            left = deadline - time.time()
            if left <= 0:
                return None
            r, _, _ = select.select([self.p.stdout], [], [], left)
            if not r:
                return None
            chunk = os.read(self.p.stdout.fileno(), 1 << 16)
            if not chunk:
                return b""
            self.buf += chunk
        line, self.buf = self.buf.split(b"\n", 1)
        return line + b"\n"

    def ask_raw(self, line, timeout=None):
        if self.p is None or self.p.poll() is not None:
            self.start()
        self.requests += 1
        try:
            data = (line + "\n").encode()
            self.p.stdin.write(data)
            self.p.stdin.flush()
            resp = self._readline(timeout or self.timeout)
        except (BrokenPipeError, OSError):
            resp = b""
        if resp is None:
            self.p.kill()
            self.p.wait()
            self.p = None
            return "hang"
        if not resp:
            rc = self.p.wait()
            self.p = None
            return "died:%s" % rc
        return resp.decode("utf-8", "replace").rstrip("\n")

    def ask(self, *fields, timeout=None):
        """fields[0] is the command (plain), others are str/bytes payloads (hex-encoded here)."""
        return self.ask_raw("\t".join([fields[0]] + [hx(f) for f in fields[1:]]), timeout=timeout)

    def close(self):
        if self.p is not None:
            try:
                self.p.stdin.close()
                self.p.wait(timeout=5)
            except Exception:
                self.p.kill()
            self.p = None


def model():
    return LineProc([FSMODEL], "model")


def harness():
    return LineProc([FSELAUX], "harness")


# ------------------------------------------------------------------ CLI runner

_scratch_n = [0]


def new_scratch():
    _scratch_n[0] += 1
    d = os.path.join(SCRATCH_BASE, "fselverif.%d.%d" % (os.getpid(), _scratch_n[0]))
    if os.path.exists(d):
        rm_tree(d)
    os.makedirs(d)
    os.makedirs(os.path.join(d, "home"))
    return d


def rm_tree(d):
    def onerr(func, path, exc):
        try:
            os.chmod(os.path.dirname(path), 0o700)
            os.chmod(path, 0o700)
            func(path)
        except Exception:
            pass
    # make everything accessible first (faulted directories)
    for root, dirs, files in os.walk(d):
        for x in dirs:
            try:
                os.chmod(os.path.join(root, x), 0o700)
            except OSError:
                pass
    shutil.rmtree(d, onerror=onerr)


def run_cli(argv, cwd, scratch, tz="UTC", timeout=10, config=None, as_nobody=False, extra_env=None):
    """Run the dev binary.  HOME points into scratch (the auto-saved config never touches the real
    home).  Returns dict(status, out(bytes), err(bytes), timed_out)."""
    env = {"HOME": os.path.join(scratch, "home"), "TZ": tz, "NO_COLOR": "1", "RUST_BACKTRACE": "0",
           "PATH": "/usr/bin:/bin", "LANG": "C.UTF-8"}
    if extra_env:
        env.update(extra_env)
    cmd = [FSELECT]
    if config is not None:
        cmd += ["-c", config]
    cmd += list(argv)
    if as_nobody:
        cmd = ["setpriv", "--reuid=65534", "--regid=65534", "--clear-groups"] + cmd
    try:
        p = subprocess.run(cmd, cwd=cwd, env=env, stdin=subprocess.DEVNULL, stdout=subprocess.PIPE,
                           stderr=subprocess.PIPE, timeout=timeout)
        return {"status": p.returncode, "out": p.stdout, "err": p.stderr, "timed_out": False}
    except subprocess.TimeoutExpired as e:
        return {"status": None, "out": e.stdout or b"", "err": e.stderr or b"", "timed_out": True}


_CLOCK_SHIM = [False]


def clock_shim():
    """path of an LD_PRELOAD library that fixes the wall clock at FAKE_EPOCH (seconds), or None if it cannot be built.
    Built from tools/clockshim.c into .cache on first use."""
    if _CLOCK_SHIM[0] is False:
        so = os.path.join(CACHE, "clockshim.so")
        src = os.path.join(os.path.dirname(os.path.abspath(__file__)), "clockshim.c")
        ok = os.path.exists(so) and os.path.getmtime(so) >= os.path.getmtime(src)
        if not ok:
            for cc in ("gcc", "cc", "clang"):
                try:
                    if subprocess.run([cc, "-shared", "-fPIC", "-O1", "-o", so, src], stdout=subprocess.DEVNULL, stderr=subprocess.DEVNULL).returncode == 0:
                        ok = True
                        break
                except OSError:
                    pass
        _CLOCK_SHIM[0] = so if ok else None
    return _CLOCK_SHIM[0]


def fake_clock_env(epoch):
    so = clock_shim()
    return None if so is None else {"LD_PRELOAD": so, "FAKE_EPOCH": str(int(epoch))}


def panicked(r):
    return r["status"] == 101 or b"panicked at" in r["err"]


# ------------------------------------------------------------------ proof audit

AXIOMS_OK = {"propext", "Classical.choice", "Quot.sound"}
FORBIDDEN = re.compile(r"\bsorry\b|\badmit\b|^axiom\s|native_decide|bv_decide|implemented_by|\bunsafe\s|maxHeartbeats\s+0")


def strip_lean_comments(src):
    out = []
    i = 0
    depth = 0
    n = len(src)
    while i < n:
        if src.startswith("/-", i):
            depth += 1
            i += 2
        elif depth and src.startswith("-/", i):
            depth -= 1
            i += 2
        elif depth:
            i += 1
        elif src.startswith("--", i):
            j = src.find("\n", i)
            i = n if j < 0 else j
        else:
            out.append(src[i])
            i += 1
    return "".join(out)


def lean_module_files(mod):
    """transitive closure of Fsel.* imports of module `mod` (file paths)."""
    seen = {}
    todo = [mod]
    while todo:
        m = todo.pop()
        if m in seen:
            continue
        path = os.path.join(LEAN, *m.split(".")) + ".lean"
        if not os.path.exists(path):
            continue
        src = open(path, encoding="utf-8").read()
        seen[m] = path
        for im in re.findall(r"(?m)^import\s+(Fsel[\w.]*)", src):
            todo.append(im)
    return seen


def proof_audit(prop_id, thorough=False):
    """Builds Fsel.Props.<id>, greps for forbidden constructs, collects `#print axioms` output.
    Returns dict(ok, theorems, obligations, discharged, axioms, counterexamples, problems, log)."""
    mod = "Fsel.Props.%s" % prop_id
    res = {"ok": False, "module": mod, "theorems": [], "obligations": 0, "discharged": 0, "axioms": {},
           "counterexamples": [], "partials": [], "problems": [], "checker_cmd": "cd lean && lake build %s && lake env lean AxiomAudit" % mod}
    files = lean_module_files(mod)
    if mod not in files:
        res["problems"].append("module %s missing" % mod)
        return res
    for m, path in files.items():
        src = strip_lean_comments(open(path, encoding="utf-8").read())
        for ln in src.split("\n"):
            if FORBIDDEN.search(ln):
                res["problems"].append("forbidden construct in %s: %s" % (m, ln.strip()[:80]))
    src = strip_lean_comments(open(files[mod], encoding="utf-8").read())
    names = re.findall(r"(?m)^\s*(?:private\s+)?theorem\s+([\w.']+)", src)
    ns = re.findall(r"(?m)^namespace\s+([\w.]+)", src)
    prefix = (ns[0] + ".") if ns else ""
    res["theorems"] = names
    res["obligations"] = len(names)
    res["counterexamples"] = [n for n in names if n.endswith("_counterexample")]
    res["partials"] = [n for n in names if n.endswith("_partial")]
    try:
        build_lean([mod])
    except BuildError as e:
        res["problems"].append("proof obligation no longer checks: " + e.what)
        res["log"] = e.log[-4000:]
        # find which theorem failed, if the log names a line
        failing = []
        for m_ in re.finditer(r"error: ([\w/]+\.lean):(\d+):", e.log):
            failing.append("%s:%s" % (m_.group(1), m_.group(2)))
        res["failing_locations"] = failing[:10]
        return res
    # axiom audit
    audit = "import %s\n" % mod + "".join("#print axioms %s%s\n" % (prefix, n) for n in names)
    apath = os.path.join(CACHE, "AxiomAudit_%s.lean" % prop_id)
    open(apath, "w").write(audit)
    rc, out = run(["lake", "env", "lean", apath], cwd=LEAN)
    cur = None
    axioms = {}
    for blk in re.finditer(r"'([\w.']+)' (depends on axioms: \[([^\]]*)\]|does not depend on any axioms)", out):
        nm = blk.group(1)
        ax = [a.strip() for a in (blk.group(3) or "").split(",") if a.strip()]
        axioms[nm] = ax
    res["axioms"] = axioms
    bad = False
    for n in names:
        full = prefix + n
        if full not in axioms:
            res["problems"].append("no axiom report for %s" % full)
            bad = True
        elif not set(axioms[full]) <= AXIOMS_OK:
            res["problems"].append("theorem %s uses axioms %s" % (full, axioms[full]))
            bad = True
    if rc != 0:
        res["problems"].append("axiom audit failed to run")
        res["log"] = out[-2000:]
    if thorough:
        rc2, out2 = run(["lake", "env", "leanchecker", mod], cwd=LEAN)
        res["leanchecker_rc"] = rc2
        if rc2 != 0:
            res["problems"].append("leanchecker rejected %s" % mod)
            res["log"] = out2[-2000:]
    res["discharged"] = len(names) if not res["problems"] else 0
    res["ok"] = not res["problems"]
    return res


# ------------------------------------------------------------------ evidence / verdict

def write_replay(prop_id, name, obj):
    os.makedirs(REPLAYS, exist_ok=True)
    path = os.path.join(REPLAYS, "%s-%s.json" % (prop_id, name))
    with open(path, "w") as f:
        json.dump(obj, f, indent=1, sort_keys=True, default=str)
    return path


def write_evidence(prop_id, tier, seed, coverage, wall_s, violations, assumptions=None):
    os.makedirs(EVIDENCE, exist_ok=True)
    ev = {"property_id": prop_id, "tier": tier, "seed": seed, "level": "proof", "coverage": coverage,
          "assumptions": assumptions or TRUSTED_BASE, "wall_s": round(wall_s, 2), "violations": violations}
    with open(os.path.join(EVIDENCE, "%s.json" % prop_id), "w") as f:
        json.dump(ev, f, indent=1, sort_keys=True, default=str)


def load_known_findings():
    p = os.path.join(VERIF, "known_findings.json")
    if not os.path.exists(p):
        return []
    return json.load(open(p))


def tables_digest():
    p = os.path.join(LEAN, "Fsel", "Gen", "Tables.lean")
    return hashlib.sha256(open(p, "rb").read()).hexdigest()[:16] if os.path.exists(p) else None
