#!/usr/bin/env python3
"""Snapshot of a tree as seen by the calling (unprivileged) user: prints JSON {top, nodes}.
   Run under `setpriv --reuid=65534 ...` so that readability facts are those of the user the search runs as."""
import json
import os
import sys

sys.path.insert(0, os.path.dirname(os.path.abspath(__file__)))
import fstree  # noqa: E402


def enc(o):
    if isinstance(o, bytes):
        return {"__b": o.hex()}
    if isinstance(o, dict):
        return {k: enc(v) for k, v in o.items()}
    if isinstance(o, (list, tuple)):
        return [enc(v) for v in o]
    return o


def dec(o):
    if isinstance(o, dict):
        if set(o) == {"__b"}:
            return bytes.fromhex(o["__b"])
        return {k: dec(v) for k, v in o.items()}
    if isinstance(o, list):
        return [dec(v) for v in o]
    return o


if __name__ == "__main__":
    top, nodes = fstree.snapshot(sys.argv[1])
    json.dump(enc({"top": top, "nodes": nodes}), sys.stdout)
