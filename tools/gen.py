"""Type-directed query generators (structured, mostly valid) + a malformed stream."""
from common import Rng

TEXT_COLS = ["name", "path", "ext", "dir", "mode"]
NUM_COLS = ["size", "uid", "gid", "hardlinks", "line_count"]
BOOL_COLS = ["is_dir", "is_file", "is_symlink", "is_pipe", "is_socket", "is_hidden", "is_empty",
             "user_read", "user_write", "user_exec", "group_read", "other_read", "other_exec", "suid", "sgid",
             "is_archive", "is_source", "is_doc", "is_image"]
DATE_COLS = ["modified"]

FIELD_ALIASES = {"ext": ["ext", "extension"], "dir": ["dir", "dirname", "directory"], "size": ["size"],
                 "is_pipe": ["is_pipe", "is_fifo"], "name": ["name"], "path": ["path"]}

CMP_OPS = {
    "eq": ["=", "==", "eq"], "ne": ["!=", "<>", "ne"], "eeq": ["==="], "ene": ["!=="],
    "gt": [">", "gt"], "gte": [">=", "gte", "ge"], "lt": ["<", "lt"], "lte": ["<=", "lte", "le"],
    "rx": ["=~", "~=", "regexp", "rx"], "notrx": ["!=~", "!~="], "like": ["like"], "notlike": ["not like"],
}
ARITH_OPS = {"+": ["+", "plus"], "-": ["-", "minus"], "*": ["*", "mul"], "/": ["/", "div"], "%": ["%", "mod"]}

SCALAR_FUNCS_1 = ["lower", "upper", "length", "initcap", "trim", "ltrim", "rtrim", "to_base64", "from_base64",
                  "bin", "hex", "oct", "abs", "year", "month", "day", "dow", "len", "lcase", "ucase"]
AGG_FUNCS = ["count", "sum", "min", "max", "avg", "stddev_pop", "stddev_samp", "var_pop", "var_samp"]
FORMATS = ["tabs", "lines", "list", "csv", "json", "html"]
ROOT_OPTS = ["depth", "maxdepth", "mindepth", "bfs", "dfs", "arc", "archives", "sym", "symlinks", "gitignore", "git",
             "hgignore", "hg", "dockerignore", "dock", "nogit", "nohg", "nodock"]

KEYWORDS = ["select", "from", "where", "and", "or", "not", "order", "by", "group", "limit", "into", "asc", "desc",
            "between", "like", "eq", "ne", "gt", "lt", "ge", "le", "gte", "lte", "rx", "regexp", "mul", "div", "mod",
            "plus", "minus", "depth", "mindepth", "maxdepth", "bfs", "dfs", "arc", "sym", "git", "hg", "dock"]
PUNCT = ["(", ")", "{", "}", ",", "=", "==", "===", "!=", "!==", "<>", "<", ">", "<=", ">=", "=~", "~=", "!=~", "!~=",
         "=!", "<<", "+", "-", "*", "/", "%", "'", '"', "`"]


def rand_case(rng, w):
    m = rng.below(4)
    if m == 0:
        return w
    if m == 1:
        return w.upper()
    if m == 2:
        return w.capitalize()
    return "".join(c.upper() if rng.chance(1, 2) else c.lower() for c in w)


class QGen:
    """Generates structured queries; `lits` supplies literals per column kind (from a tree)."""

    def __init__(self, rng, lits=None, roots=None, allow_funcs=True, allow_arith=True):
        self.r = rng
        self.lits = lits or {}
        self.roots = roots or ["."]
        self.allow_funcs = allow_funcs
        self.allow_arith = allow_arith

    # ---- expressions (value level)
    def num_lit(self):
        r = self.r
        pool = self.lits.get("num") or [0, 1, 2, 10, 100, 1024]
        v = r.choice(pool)
        return ("lit", str(max(0, v + r.choice([-1, 0, 0, 1]))), False)

    def text_lit(self, col="name"):
        r = self.r
        pool = self.lits.get(col) or self.lits.get("name") or ["a", "b.txt", "foo"]
        v = r.choice(pool)
        return ("lit", v, True)

    def value_expr(self, depth):
        r = self.r
        k = r.below(10)
        if depth <= 0 or k < 4:
            if k % 2 == 0:
                return ("field", r.choice(NUM_COLS[:4]))
            return self.num_lit()
        if k < 7 and self.allow_arith:
            return ("arith", r.choice(list(ARITH_OPS)), self.value_expr(depth - 1), self.value_expr(depth - 1))
        if k < 8:
            return ("paren", self.value_expr(depth - 1))
        if k < 9 and self.allow_funcs:
            return ("func", "length", [("field", r.choice(["name", "path", "ext"]))])
        return ("field", "size")

    def select_expr(self, depth=2):
        r = self.r
        k = r.below(10)
        if k < 5:
            return ("field", r.choice(TEXT_COLS + NUM_COLS + BOOL_COLS[:6] + DATE_COLS))
        if k < 7 and self.allow_funcs:
            f = r.choice(SCALAR_FUNCS_1[:9])
            return ("func", f, [("field", r.choice(["name", "ext", "path"]))])
        if k < 9 and self.allow_arith:
            return self.value_expr(depth)
        return ("field", "name")

    # ---- conditions
    def atom(self):
        r = self.r
        k = r.below(12)
        if k < 4:
            col = r.choice(NUM_COLS[:4])
            op = r.choice(["eq", "ne", "gt", "gte", "lt", "lte"])
            return ("cmp", ("field", col), op, self.num_lit())
        if k < 7:
            col = r.choice(["name", "ext", "path"])
            op = r.choice(["eq", "ne", "eeq", "ene", "like", "notlike", "rx", "notrx"])
            lit = self.text_lit(col)
            if op in ("like", "notlike") and r.chance(1, 2):
                lit = ("lit", "%" + lit[1][1:], True)
            if op in ("eq", "ne") and r.chance(1, 2):
                lit = ("lit", "*" + lit[1][1:], True)
            if op in ("rx", "notrx"):
                lit = ("lit", "^" + "".join(c for c in lit[1] if c.isalnum())[:3], True)
            return ("cmp", ("field", col), op, lit)
        if k < 9:
            return ("bool", r.choice(BOOL_COLS))
        if k < 10:
            col = r.choice(NUM_COLS[:2])
            a = self.num_lit()
            b = self.num_lit()
            return ("between", ("field", col), a, b, r.chance(1, 3))
        if k < 11 and self.allow_arith:
            return ("cmp", self.value_expr(1), r.choice(["gt", "lt", "eq", "gte"]), self.num_lit())
        return ("cmp", ("func", "length", [("field", "name")]), r.choice(["gt", "lt", "eq"]), ("lit", str(r.below(12)), False))

    def cond(self, depth):
        r = self.r
        if depth <= 0:
            return self.atom()
        k = r.below(10)
        if k < 3:
            return self.atom()
        if k < 5:
            return ("and", self.cond(depth - 1), self.cond(depth - 1))
        if k < 7:
            return ("or", self.cond(depth - 1), self.cond(depth - 1))
        if k < 8:
            return ("not", self.cond(depth - 1))
        return ("paren", self.cond(depth - 1))

    def query(self, where_depth=2, want_where=None, want_order=None, want_agg=False):
        r = self.r
        q = {"select": [], "roots": [], "where": None, "group": [], "order": [], "limit": None, "into": None}
        if want_agg:
            for _ in range(r.range(1, 3)):
                f = r.choice(AGG_FUNCS)
                arg = ("lit", "*", False) if f == "count" and r.chance(1, 2) else ("field", r.choice(NUM_COLS[:4]))
                q["select"].append(("func", f, [arg]))
        else:
            for _ in range(r.range(1, 4)):
                q["select"].append(self.select_expr())
        nroots = 1 if r.chance(3, 4) else 2
        for _ in range(nroots):
            opts = []
            if r.chance(1, 3):
                opts += [(r.choice(["depth", "maxdepth"]), r.below(4))]
            if r.chance(1, 5):
                opts += [("mindepth", r.below(3))]
            if r.chance(1, 4):
                opts += [(r.choice(["bfs", "dfs"]), None)]
            q["roots"].append((r.choice(self.roots), opts))
        if want_where is None:
            want_where = r.chance(2, 3)
        if want_where:
            q["where"] = self.cond(where_depth)
        if want_order is None:
            want_order = r.chance(1, 3)
        if want_agg and r.chance(2, 3):
            gk = r.sample(["ext", "is_dir", "uid", "mode", "dir"], r.range(1, 2))
            q["group"] = [("field", k) for k in gk]
            if r.chance(2, 3):
                q["select"] = [("field", k) for k in (gk if r.chance(3, 4) else gk[:1])] + q["select"]
            if r.chance(1, 2):
                k = r.below(4)
                if k == 0:
                    key = ("field", gk[0])
                elif k == 1:
                    key = q["select"][-1]
                elif k == 2:
                    key = ("field", r.choice(["size", "name", "ext", "modified"]))
                else:
                    key = ("pos", r.range(1, len(q["select"])))
                q["order"].append((key, r.choice([None, "asc", "desc"])))
        if want_order and not want_agg:
            for _ in range(r.range(1, 2)):
                if r.chance(1, 4):
                    key = ("pos", r.range(1, len(q["select"])))
                else:
                    key = ("field", r.choice(TEXT_COLS[:3] + NUM_COLS[:3] + DATE_COLS))
                q["order"].append((key, r.choice([None, "asc", "desc"])))
        if r.chance(1, 3):
            q["limit"] = r.below(6)
        if r.chance(1, 3):
            q["into"] = r.choice(FORMATS)
        return q


# ------------------------------------------------------------------ rendering

class Render:
    """Renders a structured query into word tokens under style options (all meaning-preserving
    according to the documentation)."""

    def __init__(self, rng=None, case=False, aliases=False, curly=False, select_kw=None, commas=True, quote="'"):
        self.r = rng
        self.case = case
        self.aliases = aliases
        self.curly = curly
        self.select_kw = select_kw
        self.commas = commas
        self.quote = quote

    def kw(self, w):
        return rand_case(self.r, w) if (self.case and self.r) else w

    def open(self):
        return "{" if self.curly else "("

    def close(self):
        return "}" if self.curly else ")"

    def field(self, name):
        if self.aliases and self.r and name in FIELD_ALIASES:
            name = self.r.choice(FIELD_ALIASES[name])
        return self.kw(name)

    def lit(self, text, quoted):
        if quoted or any(c in text for c in " ,(){}=<>!~'\"`+-*/%") or text == "":
            q = self.quote
            if q in text:
                q = '"' if '"' not in text else "`"
            return q + text + q
        return text

    def expr(self, e):
        k = e[0]
        if k == "field":
            return [self.field(e[1])]
        if k == "lit":
            return [self.lit(e[1], e[2])]
        if k == "func":
            out = [self.kw(e[1]) + self.open()]
            for i, a in enumerate(e[2]):
                if i:
                    out.append(",")
                out += self.expr(a)
            out.append(self.close())
            return out
        if k == "arith":
            op = e[1]
            if self.aliases and self.r:
                op = self.r.choice(ARITH_OPS[op])
            return self.expr(e[2]) + [self.kw(op)] + self.expr(e[3])
        if k == "paren":
            return [self.open()] + self.expr(e[1]) + [self.close()]
        if k == "neg":
            return ["-"] + self.expr(e[1])
        raise ValueError(k)

    def cmp_op(self, op):
        alts = CMP_OPS[op]
        s = self.r.choice(alts) if (self.aliases and self.r) else alts[0]
        return " ".join(self.kw(w) for w in s.split(" "))

    def cond(self, c):
        k = c[0]
        if k == "cmp":
            return self.expr(c[1]) + [self.cmp_op(c[2])] + self.expr(c[3])
        if k == "bool":
            return [self.field(c[1])]
        if k == "between":
            return self.expr(c[1]) + ([self.kw("not")] if c[4] else []) + ["between"] + self.expr(c[2]) + [self.kw("and")] + self.expr(c[3])
        if k == "and":
            return self.cond(c[1]) + [self.kw("and")] + self.cond(c[2])
        if k == "or":
            return self.cond(c[1]) + [self.kw("or")] + self.cond(c[2])
        if k == "not":
            return [self.kw("not")] + self.cond(c[1])
        if k == "paren":
            return [self.open()] + self.cond(c[1]) + [self.close()]
        raise ValueError(k)

    def words(self, q):
        out = []
        sk = self.select_kw
        if sk is None and self.r:
            sk = self.r.chance(1, 2)
        if sk:
            out.append(self.kw("select"))
        for i, e in enumerate(q["select"]):
            if i and self.commas:
                out.append(",")
            out += self.expr(e)
        if q["roots"]:
            out.append(self.kw("from"))
            for i, (path, opts) in enumerate(q["roots"]):
                if i:
                    out.append(",")
                out.append(self.lit(path, False))
                for o, v in opts:
                    out.append(self.kw(o))
                    if v is not None:
                        out.append(str(v))
        if q["where"] is not None:
            out.append(self.kw("where"))
            out += self.cond(q["where"])
        if q["group"]:
            out += [self.kw("group"), self.kw("by")]
            for i, e in enumerate(q["group"]):
                if i:
                    out.append(",")
                out += self.expr(e)
        if q["order"]:
            out += [self.kw("order"), self.kw("by")]
            for i, (key, d) in enumerate(q["order"]):
                if i:
                    out.append(",")
                if key[0] == "pos":
                    out.append(str(key[1]))
                else:
                    out += self.expr(key)
                if d:
                    out.append(self.kw(d))
        if q["limit"] is not None:
            out += [self.kw("limit"), str(q["limit"])]
        if q["into"]:
            out += [self.kw("into"), self.kw(q["into"])]
        return out

    def text(self, q):
        return join_words(self.words(q))


def quote_path(p):
    """spell a root path so that it is one token: quoted unless it is plain"""
    if p and all(c.isalnum() or c in "._/" for c in p):
        return p
    for q in "'\"`":
        if q not in p:
            return q + p + q
    return None


def join_words(ws):
    """single-argument spelling: words separated by one space; brackets/commas attached as written"""
    out = ""
    for w in ws:
        if not out:
            out = w
        elif w in (",", ")", "}"):
            out += w
        elif out.endswith("(") or out.endswith("{"):
            out += w
        else:
            out += " " + w
    return out


# ------------------------------------------------------------------ malformed stream

def token_soup(rng, n):
    toks = []
    for _ in range(n):
        k = rng.below(10)
        if k < 3:
            toks.append(rand_case(rng, rng.choice(KEYWORDS)))
        elif k < 5:
            toks.append(rng.choice(PUNCT))
        elif k < 7:
            toks.append(rng.choice(TEXT_COLS + NUM_COLS + BOOL_COLS + DATE_COLS + SCALAR_FUNCS_1 + AGG_FUNCS))
        elif k < 8:
            toks.append(str(rng.choice([0, 1, 2, 5, 10, 99999999999, 4294967296, 18446744073709551616])))
        elif k < 9:
            toks.append(rng.choice([".", "/", "./a", "*.txt", "a?b", "2024-01-01", "1k", "1.5mb", "''", "'x y'", "-1", "+3"]))
        else:
            toks.append(rng.choice(FORMATS + ROOT_OPTS))
    return toks


def mutate_words(rng, ws):
    ws = list(ws)
    if not ws:
        return ws
    k = rng.below(5)
    i = rng.below(len(ws))
    if k == 0:
        del ws[i]
    elif k == 1:
        ws.insert(i, ws[i])
    elif k == 2 and len(ws) > 1:
        j = rng.below(len(ws))
        ws[i], ws[j] = ws[j], ws[i]
    elif k == 3:
        ws = ws[:i]
    else:
        ws.insert(i, rng.choice(PUNCT + KEYWORDS))
    return ws


def split_args(rng, text):
    """split a single-argument query at a random subset of its spaces (outside quotes)"""
    parts = []
    cur = ""
    q = None
    for ch in text:
        if q:
            cur += ch
            if ch == q:
                q = None
        elif ch in "'\"`":
            q = ch
            cur += ch
        elif ch == " " and rng.chance(1, 2):
            parts.append(cur)
            cur = ""
        else:
            cur += ch
    parts.append(cur)
    return [p for p in parts if p != ""] or [""]
