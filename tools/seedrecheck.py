#!/usr/bin/env python3
"""Re-run checks against a stored seeded change (after a check was strengthened) and update its meta.json.
usage: seedrecheck.py <seed-name> <property> [more properties...] [--note "text"]"""
import json
import os
import shutil
import subprocess
import sys
import time

VERIF = "/verif"


def sh(cmd, cwd=None, timeout=3600):
    p = subprocess.run(cmd, shell=True, cwd=cwd, stdout=subprocess.PIPE, stderr=subprocess.STDOUT, timeout=timeout)
    return p.returncode, p.stdout.decode("utf-8", "replace")


def main():
    args = sys.argv[1:]
    note = None
    if "--note" in args:
        i = args.index("--note")
        note = args[i + 1]
        del args[i:i + 2]
    name, props = args[0], args[1:]
    out = os.path.join(VERIF, "seeded", name)
    meta = json.load(open(os.path.join(out, "meta.json")))
    rc, o = sh("git -C /repo status --short | grep -v '^??' | head -3")
    if o.strip():
        print("/repo has uncommitted changes, abort:", o)
        return 1
    patch = os.path.join(out, "patch.diff")
    rc, o = sh("git -C /repo apply %s" % patch)
    if rc != 0:
        print("patch does not apply:", o)
        return 1
    results = {}
    try:
        for p in props:
            t0 = time.time()
            rc, o = sh("python3 tools/verif.py check %s --tier quick" % p, cwd=VERIF)
            lines = [l for l in o.split("\n") if l.startswith(("VIOLATION", "OK ", "KNOWN", "ERROR"))]
            results[p] = {"exit": rc, "lines": lines, "wall_s": round(time.time() - t0, 1)}
            print(p, "exit", rc, lines[:3])
            rp = os.path.join(VERIF, "evidence", "replays", "%s-violation.json" % p)
            if rc == 1 and os.path.exists(rp):
                shutil.copy(rp, os.path.join(out, "replay-%s.json" % p))
    finally:
        sh("git -C /repo checkout -- .")
    if "checks_first_run" not in meta:
        meta["checks_first_run"] = meta.get("checks", {})
        meta["detected_first_run"] = meta.get("detected_by", [])
    meta["checks"] = dict(meta.get("checks", {}), **results)
    meta["detected_by"] = sorted(set(p for p, r in meta["checks"].items() if r["exit"] == 1))
    if note:
        meta["strengthening"] = note
    json.dump(meta, open(os.path.join(out, "meta.json"), "w"), indent=1)
    for p in props:
        sh("python3 tools/verif.py check %s --tier quick" % p, cwd=VERIF)
    return 0


if __name__ == "__main__":
    sys.exit(main())
