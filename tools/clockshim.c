#define _GNU_SOURCE
#include <time.h>
#include <stdlib.h>
#include <sys/time.h>
/* fixed wall clock: FAKE_EPOCH seconds since 1970 */
static long fake(void){ const char *e = getenv("FAKE_EPOCH"); return e ? atol(e) : 0; }
int clock_gettime(clockid_t id, struct timespec *ts){
    if (id == CLOCK_REALTIME && fake()) { ts->tv_sec = fake(); ts->tv_nsec = 123456789; return 0; }
    extern int __clock_gettime(clockid_t, struct timespec *);
    return __clock_gettime(id, ts);
}
