#!/usr/bin/env python3
"""Confirm a seeded change produced in a scratch worktree, run the checks against it, store it.
usage: seedtest.py <property> <worktree> <seed-name> [extra properties to check...]"""
import json
import os
import shutil
import subprocess
import sys
import time

VERIF = "/verif"


def sh(cmd, cwd=None, timeout=3600, env=None):
    p = subprocess.run(cmd, shell=True, cwd=cwd, stdout=subprocess.PIPE, stderr=subprocess.STDOUT, timeout=timeout, env=env)
    return p.returncode, p.stdout.decode("utf-8", "replace")


def main():
    prop, wt, name = sys.argv[1], sys.argv[2], sys.argv[3]
    extra = sys.argv[4:]
    out = os.path.join(VERIF, "seeded", name)
    os.makedirs(out, exist_ok=True)
    env = dict(os.environ, CARGO_NET_OFFLINE="true", CARGO_TARGET_DIR=os.path.join(wt, "target"))
    rc, diff = sh("git diff -- src", cwd=wt)
    if not diff.strip():
        print("no diff in worktree")
        return 1
    open(os.path.join(out, "patch.diff"), "w").write(diff)
    for f in ("demo.sh", "SEED.md"):
        if os.path.exists(os.path.join(wt, f)):
            shutil.copy(os.path.join(wt, f), os.path.join(out, f))
    meta = {"property": prop, "name": name, "ran": []}
    # 1. existing suite passes with the change
    rc, o = sh("cargo test --offline 2>&1 | grep 'test result'", cwd=wt, env=env)
    meta["tests_with_change"] = o.strip()
    ok_tests = "137 passed; 0 failed" in o
    # 2. demonstration fails with the change, passes without
    binp = os.path.join(wt, "target", "debug", "fselect")
    sh("cargo build --offline", cwd=wt, env=env)
    rc_with, _ = sh("bash demo.sh %s" % binp, cwd=wt, env=env, timeout=900)
    sh("git stash", cwd=wt)
    sh("cargo build --offline", cwd=wt, env=env)
    rc_without, _ = sh("bash demo.sh %s" % binp, cwd=wt, env=env, timeout=900)
    sh("git stash pop", cwd=wt)
    meta["demo_exit_with_change"] = rc_with
    meta["demo_exit_without_change"] = rc_without
    confirmed = ok_tests and rc_with != 0 and rc_without == 0
    meta["confirmed"] = confirmed
    print("tests:", o.strip(), "| demo with/without:", rc_with, rc_without, "| confirmed:", confirmed)
    # 3. run our checks against it in /repo
    rc, o = sh("git -C /repo status --short | grep -v '^??' | head -3")
    if o.strip():
        print("/repo has uncommitted changes, abort:", o)
        return 1
    rc, o = sh("git -C /repo apply %s" % os.path.join(out, "patch.diff"))
    if rc != 0:
        print("patch does not apply to /repo:", o)
        return 1
    results = {}
    try:
        for p in [prop] + extra:
            t0 = time.time()
            rc, o = sh("python3 tools/verif.py check %s --tier quick" % p, cwd=VERIF, timeout=3600)
            lines = [l for l in o.split("\n") if l.startswith("VIOLATION") or l.startswith("OK ") or l.startswith("KNOWN") or l.startswith("ERROR")]
            results[p] = {"exit": rc, "lines": lines, "wall_s": round(time.time() - t0, 1)}
            print(p, "exit", rc, lines[:3])
            rp = os.path.join(VERIF, "evidence", "replays", "%s-violation.json" % p)
            if rc == 1 and os.path.exists(rp):
                shutil.copy(rp, os.path.join(out, "replay-%s.json" % p))
    finally:
        sh("git -C /repo checkout -- .")
    meta["checks"] = results
    meta["detected_by"] = [p for p, r in results.items() if r["exit"] == 1]
    json.dump(meta, open(os.path.join(out, "meta.json"), "w"), indent=1)
    # restore evidence of the unchanged tree for the touched properties
    for p in [prop] + extra:
        sh("python3 tools/verif.py check %s --tier quick" % p, cwd=VERIF, timeout=3600)
    return 0


if __name__ == "__main__":
    sys.exit(main())
