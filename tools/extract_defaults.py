"""default extension lists, read back from the generated Lean tables (which come from config.rs)"""
import os
import re

import common


def ext_lists():
    s = open(os.path.join(common.LEAN, "Fsel", "Gen", "Tables.lean"), encoding="utf-8").read()
    out = {}
    for m in re.finditer(r"def default_(is_\w+) : List \(List Char\) := \[(.*)\]\n", s):
        items = re.findall(r"\[((?:'[^']*',?)*)\]", m.group(2))
        out[m.group(1)] = ["".join(re.findall(r"'([^'])'", it)) for it in items]
    return out
