#!/usr/bin/env python3
"""Translator: regenerates lean/Fsel/Gen/Tables.lean from the table-shaped Rust code of /repo.

Anchors on item names (fn / impl / enum / const names), never on line numbers.  Fails loudly
(ExtractError naming the item) instead of emitting a partial table.  cfg attributes are evaluated
for: unix, target_os = "linux", default cargo features (git, users, update-notifications).
"""
import os
import re
import sys
import hashlib

REPO = os.environ.get("FSEL_REPO", "/repo")
OUT = os.path.join(os.path.dirname(os.path.abspath(__file__)), "..", "lean", "Fsel", "Gen", "Tables.lean")


class ExtractError(Exception):
    pass


# ------------------------------------------------------------------ tokenizer

TOK_RE = re.compile(r"""
    (?P<ws>\s+)
  | (?P<lcomment>//[^\n]*)
  | (?P<bcomment>/\*.*?\*/)
  | (?P<rawstr>r\#*"(?s:.*?)"\#*)
  | (?P<str>"(?:[^"\\]|\\.)*")
  | (?P<char>'(?:[^'\\]|\\(?:x[0-9a-fA-F]{2}|u\{[0-9a-fA-F]+\}|.))')
  | (?P<lifetime>'[A-Za-z_][A-Za-z0-9_]*)
  | (?P<num>0o[0-7_]+|0x[0-9a-fA-F_]+|0b[01_]+|[0-9][0-9_]*(?:\.[0-9][0-9_]*)?(?:[eE][+-]?[0-9]+)?(?:[iuf](?:8|16|32|64|128|size))?)
  | (?P<ident>[A-Za-z_][A-Za-z0-9_]*!?)
  | (?P<punct>=>|::|->|==|!=|<=|>=|&&|\|\||\.\.=|\.\.|[-+*/%^&|!<>=.,;:#\[\](){}@?~$])
""", re.X | re.S)


def unescape(body):
    out = []
    i = 0
    while i < len(body):
        c = body[i]
        if c == "\\":
            n = body[i + 1]
            if n == "n":
                out.append("\n"); i += 2
            elif n == "t":
                out.append("\t"); i += 2
            elif n == "r":
                out.append("\r"); i += 2
            elif n == "0":
                out.append("\0"); i += 2
            elif n == "x":
                out.append(chr(int(body[i + 2:i + 4], 16))); i += 4
            elif n == "u":
                j = body.index("}", i)
                out.append(chr(int(body[i + 3:j], 16))); i = j + 1
            elif n == "\n":
                i += 2
                while i < len(body) and body[i] in " \t\n":
                    i += 1
            else:
                out.append(n); i += 2
        else:
            out.append(c); i += 1
    return "".join(out)


def tokenize(src):
    toks = []
    pos = 0
    while pos < len(src):
        m = TOK_RE.match(src, pos)
        if not m:
            raise ExtractError("cannot tokenize near %r" % src[pos:pos + 40])
        pos = m.end()
        k = m.lastgroup
        t = m.group(k)
        if k in ("ws", "lcomment", "bcomment"):
            continue
        if k == "str":
            toks.append(("str", unescape(t[1:-1])))
        elif k == "rawstr":
            h = t[1:].index('"')
            toks.append(("str", t[2 + h:len(t) - 1 - h]))
        elif k == "char":
            toks.append(("char", unescape(t[1:-1])))
        elif k == "num":
            toks.append(("num", t))
        elif k == "ident":
            toks.append(("ident", t))
        elif k == "lifetime":
            toks.append(("lifetime", t))
        else:
            toks.append(("p", t))
    return toks


OPEN = {"(": ")", "[": "]", "{": "}"}


def match_close(toks, i):
    """toks[i] is an opening bracket; return index of its closing partner."""
    depth = 0
    j = i
    while j < len(toks):
        k, t = toks[j]
        if k == "p" and t in OPEN:
            depth += 1
        elif k == "p" and t in OPEN.values():
            depth -= 1
            if depth == 0:
                return j
        j += 1
    raise ExtractError("unbalanced bracket")


def load(rel):
    p = os.path.join(REPO, rel)
    try:
        with open(p, encoding="utf-8") as f:
            return tokenize(f.read())
    except OSError as e:
        raise ExtractError("cannot read %s: %s" % (rel, e))


# ------------------------------------------------------------------ cfg evaluation

FEATURES = {"git", "users", "update-notifications"}


def eval_cfg(toks):
    """toks: tokens inside cfg( ... ). returns bool."""
    def parse(i):
        k, t = toks[i]
        if k == "ident" and t in ("all", "any", "not"):
            assert toks[i + 1] == ("p", "(")
            j = match_close(toks, i + 1)
            args = []
            p = i + 2
            while p < j:
                v, p = parse(p)
                args.append(v)
                if p < j and toks[p] == ("p", ","):
                    p += 1
            if t == "all":
                return all(args), j + 1
            if t == "any":
                return any(args), j + 1
            return (not args[0]), j + 1
        if k == "ident":
            if i + 2 < len(toks) + 0 and i + 1 < len(toks) and toks[i + 1] == ("p", "="):
                val = toks[i + 2][1]
                if t == "feature":
                    return val in FEATURES, i + 3
                if t == "target_os":
                    return val == "linux", i + 3
                if t == "target_family":
                    return val == "unix", i + 3
                return False, i + 3
            if t == "unix":
                return True, i + 1
            if t in ("windows", "test", "debug_assertions"):
                return (t == "debug_assertions"), i + 1
            return False, i + 1
        raise ExtractError("cfg syntax")
    v, _ = parse(0)
    return v


def strip_cfg(toks):
    """Remove items/arms/statements guarded by a false #[cfg(..)]; drop all attributes."""
    out = []
    i = 0
    n = len(toks)
    while i < n:
        if toks[i] == ("p", "#") and i + 1 < n and toks[i + 1] in (("p", "["), ("p", "!")):
            j = i + 1
            if toks[j] == ("p", "!"):
                j += 1
            e = match_close(toks, j)
            inner = toks[j + 1:e]
            keep = True
            if inner and inner[0] == ("ident", "cfg"):
                c = match_close(inner, 1)
                keep = eval_cfg(inner[2:c])
            i = e + 1
            if not keep:
                i = skip_item(toks, i)
            continue
        out.append(toks[i])
        i += 1
    return out


def skip_item(toks, i):
    """Skip one attribute target starting at i: further attributes, then up to the end of the
    item: a `{...}` block (followed by optional `,`), or up to `,` / `;` at depth 0."""
    n = len(toks)
    while i < n and toks[i] == ("p", "#"):
        e = match_close(toks, i + 1)
        i = e + 1
    depth = 0
    while i < n:
        k, t = toks[i]
        if k == "p" and t in OPEN:
            if t == "{" and depth == 0:
                e = match_close(toks, i)
                i = e + 1
                if i < n and toks[i] == ("p", ","):
                    i += 1
                return i
            e = match_close(toks, i)
            i = e + 1
            continue
        if k == "p" and t in (",", ";"):
            return i + 1
        if k == "p" and t in OPEN.values():
            return i  # end of enclosing block
        i += 1
    return i


# ------------------------------------------------------------------ locating items

def find_fn(toks, name, after=0):
    for i in range(after, len(toks) - 1):
        if toks[i] == ("ident", "fn") and toks[i + 1] == ("ident", name):
            j = i + 2
            while toks[j] != ("p", "{"):
                if toks[j][0] == "p" and toks[j][1] in "([":
                    j = match_close(toks, j)
                j += 1
            e = match_close(toks, j)
            return toks[j + 1:e]
    raise ExtractError("fn %s not found" % name)


def find_impl(toks, header):
    """header: list of ident strings that must appear between `impl` and `{`."""
    for i in range(len(toks)):
        if toks[i] == ("ident", "impl"):
            j = i + 1
            hdr = []
            while toks[j] != ("p", "{"):
                hdr.append(toks[j][1])
                j += 1
            if hdr == header:
                e = match_close(toks, j)
                return toks[j + 1:e]
    raise ExtractError("impl %s not found" % " ".join(header))


def find_enum(toks, name):
    for i in range(len(toks) - 2):
        if toks[i] == ("ident", "enum") and toks[i + 1] == ("ident", name) and toks[i + 2] == ("p", "{"):
            e = match_close(toks, i + 2)
            body = toks[i + 3:e]
            vs = []
            j = 0
            while j < len(body):
                k, t = body[j]
                if k == "ident":
                    vs.append(t)
                    j += 1
                    if j < len(body) and body[j][0] == "p" and body[j][1] in "({":
                        j = match_close(body, j) + 1
                    if j < len(body) and body[j] == ("p", ","):
                        j += 1
                else:
                    raise ExtractError("enum %s: unexpected token %r" % (name, t))
            return vs
    raise ExtractError("enum %s not found" % name)


def find_match(body, after=0):
    """first `match <scrutinee> {` in body at/after index; returns (arms tokens, end index)."""
    for i in range(after, len(body)):
        if body[i] == ("ident", "match"):
            j = i + 1
            while body[j] != ("p", "{"):
                if body[j][0] == "p" and body[j][1] in "([":
                    j = match_close(body, j)
                j += 1
            e = match_close(body, j)
            return body[j + 1:e], e
    raise ExtractError("match not found")


def split_arms(arms):
    """-> list of (pattern tokens, body tokens)"""
    res = []
    i = 0
    n = len(arms)
    while i < n:
        pat = []
        while arms[i] != ("p", "=>"):
            if arms[i][0] == "p" and arms[i][1] in OPEN:
                e = match_close(arms, i)
                pat.extend(arms[i:e + 1])
                i = e + 1
                continue
            pat.append(arms[i])
            i += 1
        i += 1
        body = []
        if arms[i] == ("p", "{"):
            e = match_close(arms, i)
            body = arms[i:e + 1]
            i = e + 1
            if i < n and arms[i] == ("p", ","):
                i += 1
        else:
            while i < n and arms[i] != ("p", ","):
                if arms[i][0] == "p" and arms[i][1] in OPEN:
                    e = match_close(arms, i)
                    body.extend(arms[i:e + 1])
                    i = e + 1
                    continue
                body.append(arms[i])
                i += 1
            i += 1
        res.append((pat, body))
    return res


def str_alts(pat):
    """pattern consisting of string literals separated by | (optionally followed by `if guard`)"""
    alts = []
    guard = None
    for idx, (k, t) in enumerate(pat):
        if k == "str":
            alts.append(t)
        elif (k, t) == ("p", "|"):
            continue
        elif (k, t) == ("ident", "if"):
            guard = " ".join(x[1] for x in pat[idx + 1:])
            break
        elif (k, t) == ("ident", "_"):
            return None, None
        else:
            raise ExtractError("unexpected token in string pattern: %r" % (t,))
    return alts, guard


def last_path_ident(body, enum):
    """body like Some(Op::Eq) / Ok(Field::Name) -> 'Eq'"""
    for i in range(len(body) - 2):
        if body[i] == ("ident", enum) and body[i + 1] == ("p", "::"):
            return body[i + 2][1]
    return None


def str_table(fn_body, enum, what):
    arms, _ = find_match(fn_body)
    rows = []
    for pat, body in split_arms(arms):
        alts, guard = str_alts(pat)
        if alts is None:
            continue
        v = last_path_ident(body, enum)
        if v is None:
            raise ExtractError("%s: arm %r has no %s:: result" % (what, alts, enum))
        for a in alts:
            rows.append((a, v))
    if not rows:
        raise ExtractError("%s: empty table" % what)
    return rows


def matches_set(fn_body, enum, what, allow_empty=False):
    """all `Enum::Variant` mentioned in the function body"""
    vs = []
    for i in range(len(fn_body) - 2):
        if fn_body[i] == ("ident", enum) and fn_body[i + 1] == ("p", "::") and fn_body[i + 2][0] == "ident":
            v = fn_body[i + 2][1]
            if v not in vs:
                vs.append(v)
    if not vs and not allow_empty:
        raise ExtractError("%s: no variants found" % what)
    return vs


# ------------------------------------------------------------------ Lean emission

def lean_char(c):
    o = ord(c)
    if c == "'":
        return "'\\''"
    if c == "\\":
        return "'\\\\'"
    if 32 <= o < 127:
        return "'%s'" % c
    return "(Char.ofNat %d)" % o


def lean_str(s):
    return "[" + ",".join(lean_char(c) for c in s) + "]"


def emit_inductive(name, variants, deriving="DecidableEq, Repr, BEq, Hashable"):
    lines = ["inductive %s where" % name]
    for v in variants:
        lines.append("  | %s" % v)
    lines.append("  deriving %s" % deriving)
    return "\n".join(lines)


def emit_table(name, rows, ty):
    lines = ["def %s : List (List Char × %s) := [" % (name, ty)]
    lines.append(",\n".join("  (%s, .%s)" % (lean_str(a), v) for a, v in rows))
    lines.append("]")
    return "\n".join(lines)


def emit_set(name, ty, vs):
    return "def %s : List %s := [%s]" % (name, ty, ", ".join("." + v for v in vs))


def lean_ident(v):
    return v


# ------------------------------------------------------------------ main extraction

def extract():
    out = []
    info = {}

    # ---- field.rs
    f = strip_cfg(load("src/field.rs"))
    fields = find_enum(f, "Field")
    imp = find_impl(f, ["FromStr", "for", "Field"])
    ftab = str_table(find_fn(imp, "from_str"), "Field", "Field::from_str")
    fimpl = find_impl(f, ["Field"])
    fsets = {}
    for fn in ["is_numeric_field", "is_datetime_field", "is_boolean_field",
               "is_available_for_archived_files", "is_colorized_field"]:
        fsets[fn] = matches_set(find_fn(fimpl, fn), "Field", fn)
    out.append(emit_inductive("Field", fields))
    out.append("def Field.all : List Field := [%s]" % ", ".join("." + v for v in fields))
    out.append("def Field.display : Field → List Char\n" + "\n".join(
        "  | .%s => %s" % (v, lean_str(v)) for v in fields))
    out.append(emit_table("fieldTable", ftab, "Field"))
    for fn, vs in fsets.items():
        out.append(emit_set("field_" + fn, "Field", vs))
    info["fields"] = len(fields)
    info["field_aliases"] = len(ftab)

    # ---- function.rs
    g = strip_cfg(load("src/function.rs"))
    funcs = find_enum(g, "Function")
    imp = find_impl(g, ["FromStr", "for", "Function"])
    gtab = str_table(find_fn(imp, "from_str"), "Function", "Function::from_str")
    gimpl = find_impl(g, ["Function"])
    out.append(emit_inductive("Function", funcs))
    out.append("def Function.all : List Function := [%s]" % ", ".join("." + v for v in funcs))
    out.append("def Function.display : Function → List Char\n" + "\n".join(
        "  | .%s => %s" % (v, lean_str(v)) for v in funcs))
    out.append(emit_table("functionTable", gtab, "Function"))
    agg = matches_set(find_fn(gimpl, "is_aggregate_function"), "Function", "is_aggregate_function")
    num = matches_set(find_fn(gimpl, "is_numeric_function"), "Function", "is_numeric_function")
    boo = matches_set(find_fn(gimpl, "is_boolean_function"), "Function", "is_boolean_function")
    out.append(emit_set("function_is_aggregate", "Function", agg))
    out.append(emit_set("function_is_numeric_extra", "Function", num))
    out.append(emit_set("function_is_boolean", "Function", boo))
    # parser.rs: `let takes_no_arguments = matches!(function, Function::A | Function::B | ...);`
    pz = strip_cfg(load("src/parser.rs"))
    nullary = []
    for i in range(len(pz) - 3):
        if pz[i] == ("ident", "takes_no_arguments") and pz[i + 1] == ("p", "=") and pz[i + 2] == ("ident", "matches!"):
            e = match_close(pz, i + 3)
            nullary = matches_set(pz[i + 3:e], "Function", "takes_no_arguments", allow_empty=True)
            break
    out.append(emit_set("function_takes_no_arguments", "Function", nullary))
    info["functions"] = len(funcs)
    info["function_aliases"] = len(gtab)

    # ---- operators.rs
    o = strip_cfg(load("src/operators.rs"))
    ops = find_enum(o, "Op")
    aops = find_enum(o, "ArithmeticOp")
    lops = find_enum(o, "LogicalOp")
    oimpl = find_impl(o, ["Op"])
    otab = str_table(find_fn(oimpl, "from"), "Op", "Op::from")
    # negate: arms `Op::X => Op::Y`
    narms, _ = find_match(find_fn(oimpl, "negate"))
    neg = []
    for pat, body in split_arms(narms):
        a = last_path_ident(pat, "Op")
        b = last_path_ident(body, "Op")
        if a is None or b is None:
            raise ExtractError("Op::negate: unexpected arm")
        neg.append((a, b))
    if sorted(a for a, _ in neg) != sorted(ops):
        raise ExtractError("Op::negate does not cover Op exactly")
    aimpl = find_impl(o, ["ArithmeticOp"])
    atab = str_table(find_fn(aimpl, "from"), "ArithmeticOp", "ArithmeticOp::from")
    out.append(emit_inductive("Op", ops))
    out.append("def Op.all : List Op := [%s]" % ", ".join("." + v for v in ops))
    out.append(emit_inductive("ArithOp", aops))
    out.append(emit_inductive("LogicalOp", lops))
    out.append(emit_table("opTable", otab, "Op"))
    out.append("def Op.negate : Op → Op\n" + "\n".join("  | .%s => .%s" % ab for ab in neg))
    out.append(emit_table("arithTable", atab, "ArithOp"))
    info["op_aliases"] = len(otab)

    # ---- query.rs OutputFormat
    q = strip_cfg(load("src/query.rs"))
    fmts = find_enum(q, "OutputFormat")
    qimpl = find_impl(q, ["OutputFormat"])
    qtab = str_table(find_fn(qimpl, "from"), "OutputFormat", "OutputFormat::from")
    out.append(emit_inductive("OutputFormat", fmts))
    out.append(emit_table("formatTable", qtab, "OutputFormat"))

    # ---- lexer.rs keyword table (RawString arm of next_lexem)
    lx = strip_cfg(load("src/lexer.rs"))
    limpl = find_impl(lx, ["Lexer"])
    nl = find_fn(limpl, "next_lexem")
    # the keyword match is the `match s.to_lowercase().as_str() {` inside
    kw = None
    pos = 0
    while True:
        try:
            arms, e = find_match(nl, pos)
        except ExtractError:
            break
        sp = split_arms(arms)
        strs = [p for p, _ in sp if p and p[0][0] == "str"]
        if len(strs) >= 8:
            kw = sp
            break
        # descend: search inside these arms too
        found = None
        for p, b in sp:
            try:
                a2, _ = find_match(b)
                sp2 = split_arms(a2)
                if len([1 for p2, _ in sp2 if p2 and p2[0][0] == "str"]) >= 8:
                    found = sp2
                    break
            except ExtractError:
                pass
        if found:
            kw = found
            break
        pos = e + 1
    if kw is None:
        raise ExtractError("lexer keyword table not found in Lexer::next_lexem")
    kwrows = []
    for pat, body in kw:
        alts, guard = str_alts(pat)
        if alts is None:
            continue
        kind = None
        txt = " ".join(t for _, t in body)
        m = re.search(r"Lexem :: (\w+)", txt)
        if "self . next_lexem" in txt:
            kind = "skip"
        elif m:
            kind = m.group(1)
        else:
            raise ExtractError("lexer keyword arm %r: unknown result" % (alts,))
        if guard is not None:
            if guard.replace(" ", "") != "self.after_where":
                raise ExtractError("lexer keyword arm %r: unknown guard %s" % (alts, guard))
            kind = kind + "_afterWhere"
        for a in alts:
            kwrows.append((a, kind))
    kinds = []
    for _, k in kwrows:
        if k not in kinds:
            kinds.append(k)
    out.append(emit_inductive("KwKind", ["kw" + k for k in kinds]))
    out.append("def lexerKeywords : List (List Char × KwKind) := [\n" + ",\n".join(
        "  (%s, .kw%s)" % (lean_str(a), k) for a, k in kwrows) + "\n]")
    info["lexer_keywords"] = len(kwrows)
    # op chars / arith chars
    opc = find_fn(limpl, "is_op_char")
    chars = [t for k, t in opc if k == "char"]
    if not chars:
        raise ExtractError("is_op_char: no chars")
    out.append("def opChars : List Char := [%s]" % ",".join(lean_char(c) for c in chars))
    ar = find_fn(limpl, "is_arithmetic_op_char")
    arms, _ = find_match(ar)
    sp = split_arms(arms)
    groups = []
    for pat, body in sp:
        cs = [t for k, t in pat if k == "char"]
        if cs:
            groups.append((cs, " ".join(t for _, t in body)))
    if len(groups) != 2:
        raise ExtractError("is_arithmetic_op_char: expected 2 char groups")
    weak = [g for g in groups if "after_open" not in g[1]]
    strong = [g for g in groups if "after_open" in g[1]]
    if len(weak) != 1 or len(strong) != 1:
        raise ExtractError("is_arithmetic_op_char: unexpected guards")
    out.append("def arithCharsAlways : List Char := [%s]" % ",".join(lean_char(c) for c in weak[0][0]))
    out.append("def arithCharsGuarded : List Char := [%s]" % ",".join(lean_char(c) for c in strong[0][0]))

    # ---- util/mod.rs : str_to_bool, parse_filesize ladder, format_filesize units
    u = strip_cfg(load("src/util/mod.rs"))
    sb = find_fn(u, "str_to_bool")
    arms, _ = find_match(sb)
    rows = []
    for pat, body in split_arms(arms):
        alts, _g = str_alts(pat)
        if alts is None:
            continue
        txt = " ".join(t for _, t in body)
        if "true" in txt:
            v = "true"
        elif "false" in txt:
            v = "false"
        else:
            raise ExtractError("str_to_bool arm")
        for a in alts:
            rows.append((a, v))
    out.append("def boolWords : List (List Char × Bool) := [\n" + ",\n".join(
        "  (%s, %s)" % (lean_str(a), v) for a, v in rows) + "\n]")

    # parse_filesize: sequence of `if length > N && string.ends_with("sfx") { return match &string[..(length - N)].parse::<T>() { Ok(size) => Some((*size * A * B ...) as u64) ...`
    pf = find_fn(u, "parse_filesize")
    ladder = []
    hows = set()
    i = 0
    while i < len(pf):
        if pf[i] == ("ident", "if") and pf[i + 1] == ("ident", "length") and pf[i + 2] == ("p", ">"):
            minlen = int(pf[i + 3][1])
            j = i
            while pf[j] != ("p", "{"):
                j += 1
            hdr = pf[i:j]
            sfx = [t for k, t in hdr if k == "str"]
            if len(sfx) != 1 or ("ident", "ends_with") not in hdr:
                raise ExtractError("parse_filesize: unexpected condition")
            e = match_close(pf, j)
            blk = pf[j + 1:e]
            ty = None
            for b in range(len(blk) - 3):
                if blk[b] == ("ident", "parse") and blk[b + 1] == ("p", "::"):
                    ty = blk[b + 3][1]
            cut = None
            for b in range(len(blk) - 2):
                if blk[b] == ("ident", "length") and blk[b + 1] == ("p", "-"):
                    cut = int(blk[b + 2][1])
            nums = []
            for b in range(len(blk)):
                if blk[b] == ("ident", "Some"):
                    e2 = match_close(blk, b + 1)
                    inner = blk[b + 2:e2]
                    if ("ident", "scale_size") in inner:
                        # Some(scale_size(<number text>, *size, A * B ...)): the multiplier is the last argument
                        depth, last = 0, 0
                        for q, tk in enumerate(inner):
                            if tk[0] == "p" and tk[1] in "([{":
                                depth += 1
                            elif tk[0] == "p" and tk[1] in ")]}":
                                depth -= 1
                            elif tk == ("p", ",") and depth == 1:
                                last = q
                        nums = [t for k, t in inner[last:] if k == "num"]
                        how = "scaled"
                    else:
                        nums = [t for k, t in inner if k == "num"]
                        how = "product"
                    break
            mult = 1
            for x in nums:
                xv = float(x.replace("_", "")) if "." in x else int(re.sub(r"[iuf]\d+$|_", "", x), 0)
                if xv != int(xv):
                    raise ExtractError("parse_filesize: non-integer factor")
                mult *= int(xv)
            if ty not in ("f64", "u64") or cut is None:
                raise ExtractError("parse_filesize: cannot read rung for %r" % sfx)
            ladder.append((sfx[0], minlen, cut, ty, mult))
            if ty == "f64":
                hows.add(how)
            i = e + 1
        else:
            i += 1
    if not ladder:
        raise ExtractError("parse_filesize: empty ladder")
    # final fallback must be string.parse::<u64>().ok()
    tail = " ".join(t for _, t in pf[-12:])
    if "parse :: < u64 >" not in tail:
        raise ExtractError("parse_filesize: unexpected fallback")
    out.append("/-- (suffix, minimal total length exclusive bound, chars cut, float?, multiplier) -/")
    out.append("def sizeLadder : List (List Char × Nat × Nat × Bool × Nat) := [\n" + ",\n".join(
        "  (%s, %d, %d, %s, %d)" % (lean_str(s), ml, cut, "true" if ty == "f64" else "false", mult)
        for s, ml, cut, ty, mult in ladder) + "\n]")
    info["size_ladder"] = len(ladder)
    if len(hows) != 1:
        raise ExtractError("parse_filesize: float rungs computed in different ways: %r" % sorted(hows))
    scaled = hows == {"scaled"}
    if scaled:
        # scale_size: plain decimals are scaled in u128 integers, everything else by one f64 multiplication
        sc = find_fn(u, "scale_size")
        words = {t for _, t in sc}
        need = {"u128", "checked_pow", "checked_mul", "try_from", "split_once", "strip_prefix", "is_ascii_digit", "MAX"}
        if not need <= words:
            raise ExtractError("scale_size: unexpected body (missing %r)" % sorted(need - words))
    out.append("/-- do the float rungs scale plain decimal numbers in integers (`scale_size`)? -/")
    out.append("def sizeScaledInIntegers : Bool := %s" % ("true" if scaled else "false"))

    # format_filesize unit arms
    ff = find_fn(u, "format_filesize")
    unit_arms = None
    pos = 0
    while True:
        try:
            arms, e = find_match(ff, pos)
        except ExtractError:
            break
        sp = split_arms(arms)
        if len([1 for p, _ in sp if p and p[0][0] == "str"]) >= 5:
            unit_arms = sp
            break
        pos = e + 1
    if unit_arms is None:
        raise ExtractError("format_filesize: unit table not found")
    urows = []
    for pat, body in unit_arms:
        alts, _g = str_alts(pat)
        if alts is None:
            continue
        txt = " ".join(t for _, t in body)
        m = re.search(r"FixedAt :: (\w+)", txt)
        fixed = m.group(1) if m else "None"
        m = re.search(r"format = humansize :: (\w+)", txt)
        if not m:
            raise ExtractError("format_filesize: arm %r has no format" % (alts,))
        base = m.group(1)
        zero = "zeroes = 0" in txt
        for a in alts:
            urows.append((a, fixed, base, zero))
    out.append(emit_inductive("FixedAt", ["None", "Base", "Kilo", "Mega", "Giga", "Tera", "Peta", "Exa"]))
    out.append(emit_inductive("SizeBase", ["BINARY", "DECIMAL", "WINDOWS"]))
    out.append("def sizeUnitTable : List (List Char × FixedAt × SizeBase × Bool) := [\n" + ",\n".join(
        "  (%s, .%s, .%s, %s)" % (lean_str(a), fx, b, "true" if z else "false") for a, fx, b, z in urows) + "\n]")

    # ---- mode.rs constants
    md = strip_cfg(load("src/mode.rs"))
    consts = {}
    for i in range(len(md) - 6):
        if md[i] == ("ident", "const") and md[i + 1][0] == "ident" and md[i + 1][1].startswith("S_I"):
            nm = md[i + 1][1]
            j = i + 2
            while md[j] != ("p", "="):
                j += 1
            consts[nm] = int(re.sub(r"[iu]\d+$|_", "", md[j + 1][1]), 0)
    need = ["S_IRUSR", "S_IWUSR", "S_IXUSR", "S_IRGRP", "S_IWGRP", "S_IXGRP", "S_IROTH", "S_IWOTH",
            "S_IXOTH", "S_ISUID", "S_ISGID", "S_ISVTX", "S_IFBLK", "S_IFDIR", "S_IFCHR", "S_IFIFO",
            "S_IFLNK", "S_IFSOCK"]
    for nm in need:
        if nm not in consts:
            raise ExtractError("mode.rs: constant %s not found" % nm)
    for nm in sorted(consts):
        out.append("def %s : Nat := %d" % (nm, consts[nm]))
    # each predicate: `fn mode_xxx(mode: u32) -> bool { <expr> }` translate to Lean over Nat
    preds = ["mode_user_read", "mode_user_write", "mode_user_exec", "mode_user_all", "mode_group_read",
             "mode_group_write", "mode_group_exec", "mode_group_all", "mode_other_read", "mode_other_write",
             "mode_other_exec", "mode_other_all", "mode_suid", "mode_sgid", "mode_sticky", "mode_is_pipe",
             "mode_is_char_device", "mode_is_block_device", "mode_is_directory", "mode_is_link",
             "mode_is_socket"]
    for p in preds:
        body = find_fn(md, p)
        out.append("def %s (mode : Nat) : Bool := %s" % (p, mode_expr(body, p)))

    # ---- util/capabilities.rs
    try:
        cp = strip_cfg(load("src/util/capabilities.rs"))
        caps = []
        # calls after the `caps.len() >= 20` test read the second 32-bit word
        second = None
        for i in range(len(cp) - 2):
            if cp[i] == ("p", ">=") and cp[i + 1] == ("num", "20"):
                second = i
                break
        if second is None:
            for i in range(len(cp) - 3):
                if cp[i] == ("p", ">") and cp[i + 1] == ("p", "=") and cp[i + 2] == ("num", "20"):
                    second = i
                    break
        if second is None:
            raise ExtractError("capabilities.rs: `caps.len() >= 20` test not found")
        for i in range(len(cp) - 4):
            if cp[i] == ("ident", "check_cap!") and cp[i + 1] == ("p", "("):
                e = match_close(cp, i + 1)
                inner = cp[i + 2:e]
                ids = [t for k, t in inner if k == "ident"]
                # the bit expression: second macro argument, `N` or `N - M`
                depth = 0
                args = [[]]
                for k, t in inner:
                    if (k, t) == ("p", ",") and depth == 0:
                        args.append([])
                    else:
                        args[-1].append((k, t))
                if len(args) < 2:
                    raise ExtractError("capabilities.rs: check_cap! with too few arguments")
                expr = args[1]
                if len(expr) == 1 and expr[0][0] == "num":
                    bit = int(expr[0][1])
                elif len(expr) == 3 and expr[0][0] == "num" and expr[1] == ("p", "-") and expr[2][0] == "num":
                    bit = int(expr[0][1]) - int(expr[2][1])
                else:
                    raise ExtractError("capabilities.rs: unsupported bit expression %r" % (expr,))
                if not ids or bit < 0:
                    raise ExtractError("capabilities.rs: malformed check_cap! call")
                caps.append((ids[0], 1 if i > second else 0, bit))
        info["caps"] = len(caps)
        out.append("/-- capability name, 32-bit word of vfs_cap_data (0/1), bit in that word -/\ndef capTable : List (List Char × Nat × Nat) := [\n" + ",\n".join(
            "  (%s, %d, %d)" % (lean_str(a), w, n) for a, w, n in caps) + "\n]")
    except ExtractError as e:
        raise

    # ---- config.rs default extension lists
    cf = strip_cfg(load("src/config.rs"))
    dimpl = None
    try:
        dimpl = find_fn(cf, "default")
    except ExtractError:
        raise
    lists = {}
    i = 0
    while i < len(dimpl) - 4:
        if dimpl[i][0] == "ident" and dimpl[i + 1] == ("p", ":") and dimpl[i + 2] == ("ident", "vec_of_strings!"):
            nm = dimpl[i][1]
            e = match_close(dimpl, i + 3)
            lists[nm] = [t for k, t in dimpl[i + 4:e] if k == "str"]
            i = e
        i += 1
    for nm in ["is_zip_archive", "is_archive", "is_audio", "is_book", "is_doc", "is_font", "is_image",
               "is_source", "is_video"]:
        if nm not in lists:
            raise ExtractError("config.rs default: list %s not found" % nm)
        out.append("def default_%s : List (List Char) := [%s]" % (nm, ", ".join(lean_str(s) for s in lists[nm])))
    info["ext_lists"] = {k: len(v) for k, v in lists.items()}

    return out, info


def mode_expr(body, name):
    """Translate a tiny boolean expression over `mode` and S_I* constants into Lean."""
    toks = list(body)
    # strip a leading `return` / trailing `;`
    toks = [t for t in toks if t not in (("ident", "return"), ("p", ";"))]
    out = []
    for k, t in toks:
        if k == "ident" and (t == "mode" or t.startswith("S_I") or t.startswith("mode_")):
            out.append(t)
        elif k == "num":
            out.append(str(int(re.sub(r"[iu]\d+$|_", "", t), 0)))
        elif k == "p" and t == "&":
            out.append("&&&")
        elif k == "p" and t == "|":
            out.append("|||")
        elif k == "p" and t in ("(", ")", "==", "!=", "&&", "||", ">", "<"):
            out.append(t)
        elif k == "p" and t == "!":
            out.append("!")
        else:
            raise ExtractError("mode.rs: cannot translate %s (token %r)" % (name, t))
    return " ".join(out)


def digest_sources():
    h = hashlib.sha256()
    for rel in ["src/field.rs", "src/function.rs", "src/operators.rs", "src/query.rs", "src/lexer.rs",
                "src/util/mod.rs", "src/mode.rs", "src/util/capabilities.rs", "src/config.rs"]:
        with open(os.path.join(REPO, rel), "rb") as f:
            h.update(f.read())
    return h.hexdigest()


def main():
    try:
        out, info = extract()
    except ExtractError as e:
        print("EXTRACT-ERROR: %s" % e)
        return 2
    text = ("-- GENERATED by tools/extract_tables.py from /repo/src — do not edit.\n"
            "-- Regenerated on every run; written only when the content changes.\n"
            "namespace Fsel\n\n" + "\n\n".join(out) + "\n\nend Fsel\n")
    os.makedirs(os.path.dirname(OUT), exist_ok=True)
    old = None
    if os.path.exists(OUT):
        with open(OUT, encoding="utf-8") as f:
            old = f.read()
    if old != text:
        with open(OUT, "w", encoding="utf-8") as f:
            f.write(text)
        print("tables: rewritten", info)
    else:
        print("tables: unchanged", info)
    return 0


if __name__ == "__main__":
    sys.exit(main())
