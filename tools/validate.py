#!/usr/bin/env python3
"""validate MANIFEST.json and evidence/*.json against the schemas (uses the tooling venv's jsonschema)"""
import glob, json, sys
import jsonschema
ok = True
m = json.load(open('/verif/MANIFEST.json'))
try:
    jsonschema.validate(m, json.load(open('/root/.vp/MANIFEST.schema.json')))
    print('MANIFEST ok', len(m['checks']), 'checks')
except jsonschema.ValidationError as e:
    ok = False; print('MANIFEST INVALID', e.message)
es = json.load(open('/root/.vp/EVIDENCE.schema.json'))
for f in sorted(glob.glob('/verif/evidence/*.json')):
    try:
        jsonschema.validate(json.load(open(f)), es); print(f, 'ok')
    except jsonschema.ValidationError as e:
        ok = False; print(f, 'INVALID', e.message[:200])
sys.exit(0 if ok else 1)
